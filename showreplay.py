import json, sys
d = json.load(open(sys.argv[1]))
t = d['trace']
print(d['violation']['sig'], d['minimisation'], 'choices', len(d['choices']), 'orig', len(d['original_choices']))
print(d['violation']['message'][:1500])
for k in ('config', 'profile', 'dealer', 'decisions'):
    print(k, t.get(k))
print('\n'.join(t.get('operations', [])))
print(t.get('state'))
for k in t:
    if k not in ('config', 'profile', 'dealer', 'decisions', 'operations', 'state'):
        print(k, t[k])
