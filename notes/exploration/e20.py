"""prototype C08: enumerate requests at sampled states; query/verify/operate agreement; refusal atomicity"""
import sys, random, warnings, collections, traceback, dataclasses, copy
import e4
from e4 import *
from pokerkit.state import *
from pokerkit import Card
def snap(state):
    return {f.name: repr(getattr(state,f.name)) for f in dataclasses.fields(state) if f.name not in ('divmod','rake')}
def requests(state, rng):
    n=state.player_count
    idx=[None]+list(range(n))
    R=[]
    for i in idx:
        R.append(('post_ante',(i,))); R.append(('post_blind_or_straddle',(i,))); R.append(('kill_hand',(i,))); R.append(('pull_chips',(i,)))
    R+= [('collect_bets',()),('fold',()),('check_or_call',()),('post_bring_in',()),('push_chips',())]
    lo=state.min_completion_betting_or_raising_to_amount; hi=state.max_completion_betting_or_raising_to_amount
    amts={None,0,-1,1,2,1000}
    if lo is not None: amts|={lo-1,lo,lo+1,hi-1,hi,hi+1}
    for a in amts: R.append(('complete_bet_or_raise_to',(a,)))
    deck=list(state.deck)
    dealable=list(state.get_dealable_cards())
    inplay=[c for h in state.hole_cards for c in h if c]+[c for r in state.board_cards for c in r]
    cards_opts=[None,'??','????',tuple(dealable[:1]),tuple(dealable[:2]),tuple(dealable[:3]),tuple(dealable[:6]),tuple(inplay[:1]),'2c' ]
    for c in cards_opts:
        R.append(('burn_card',(c,))); R.append(('deal_board',(c,)))
        for i in (None,rng.randrange(n)): R.append(('deal_hole',(c,i)))
    for k in (0,-1,1,2,9): R.append(('deal_hole',(k,None))); R.append(('deal_board',(k,)))
    d=state.stander_pat_or_discarder_index
    held=tuple(state.hole_cards[d]) if d is not None else ()
    for c in [(),held[:1],held[:2],held,tuple(dealable[:1])]: R.append(('stand_pat_or_discard',(c,)))
    for c in (None,-3,0,1,2):
        for i in idx: R.append(('select_runout_count',(c,i)))
    for i in idx:
        h=tuple(state.hole_cards[i]) if i is not None else ()
        for a in [None,True,False,h[:1],h,h+tuple(dealable[:1]),'??']: R.append(('show_or_muck_hole_cards',(a,i)))
    return R
CAN={'post_ante':'can_post_ante','post_blind_or_straddle':'can_post_blind_or_straddle','kill_hand':'can_kill_hand','pull_chips':'can_pull_chips','collect_bets':'can_collect_bets','fold':'can_fold','check_or_call':'can_check_or_call','post_bring_in':'can_post_bring_in','push_chips':'can_push_chips','complete_bet_or_raise_to':'can_complete_bet_or_raise_to','burn_card':'can_burn_card','deal_board':'can_deal_board','deal_hole':'can_deal_hole','stand_pat_or_discard':'can_stand_pat_or_discard','select_runout_count':'can_select_runout_count','show_or_muck_hole_cards':'can_show_or_muck_hole_cards'}
VER={'post_ante':'verify_ante_posting','post_blind_or_straddle':'verify_blind_or_straddle_posting','kill_hand':'verify_hand_killing','pull_chips':'verify_chips_pulling','collect_bets':'verify_bet_collection','fold':'verify_folding','check_or_call':'verify_checking_or_calling','post_bring_in':'verify_bring_in_posting','push_chips':'verify_chips_pushing','complete_bet_or_raise_to':'verify_completion_betting_or_raising_to','burn_card':'verify_card_burning','deal_board':'verify_board_dealing','deal_hole':'verify_hole_dealing','stand_pat_or_discard':'verify_standing_pat_or_discarding','select_runout_count':'verify_runout_count_selection','show_or_muck_hole_cards':'verify_hole_cards_showing_or_mucking'}
found=collections.Counter(); exs={}
def note(k,v):
    found[k]+=1; exs.setdefault(k,v)
def probe(state,rng,errmode):
    S0=snap(state)
    for name,args in requests(state,rng):
        with warnings.catch_warnings():
            warnings.simplefilter('error' if errmode else 'ignore')
            try: q=getattr(state,CAN[name])(*args)
            except BaseException as e: note(('can-raises',name,type(e).__name__),(args,)); q=None
            if snap(state)!=S0: note(('can-mutates',name),(args,)); S0=snap(state)
            try: getattr(state,VER[name])(*args); v=True
            except (ValueError,UserWarning): v=False
            except BaseException as e: note(('verify-raises',name,type(e).__name__),(args,)); v=None
            if snap(state)!=S0: note(('verify-mutates',name),(args,)); S0=snap(state)
            if q is not None and v is not None and q!=v: note(('can!=verify',name),(args,q,v))
            c=copy.deepcopy(state)
            try: r=getattr(c,name)(*args); ok=True
            except (ValueError,UserWarning): ok=False
            except BaseException as e: note(('op-raises',name,type(e).__name__),(args,str(e)[:60])); ok=None
            if ok is False and snap(c)!=S0: note(('refusal-mutates',name),(args,))
            if ok is not None and v is not None and ok!=v: note(('verify!=op',name),(args,v,ok))
            if ok and name in('post_ante','post_blind_or_straddle','kill_hand','pull_chips') and args[0] is not None and r.player_index!=args[0]: note(('wrong-player',name),(args,r))
            if ok and name in('deal_hole','select_runout_count','show_or_muck_hole_cards') and args[1] is not None and r.player_index!=args[1]: note(('wrong-player',name),(args,r))
def run(seed):
    rng=random.Random(seed); random.seed(seed)
    g=rng.choice(GL); n=rng.randint(2,min(6,MAXP.get(g,6)))
    autos=tuple(a for a in ALL if rng.random()<rng.choice([0.2,0.5,0.8])); mode=rng.choice(list(Mode))
    stacks=[rng.choice([1,2,3,5,8,13,20,40,100,200]) for _ in range(n)]
    with warnings.catch_warnings():
        warnings.simplefilter('ignore')
        state=mk(g,autos,rng,n,mode=mode)(stacks,n)
    k=0
    while state.status:
        if rng.random()<0.08: probe(state,rng,rng.random()<0.5)
        with warnings.catch_warnings():
            warnings.simplefilter('ignore')
            if state.can_show_or_muck_hole_cards() and not state.can_select_runout_count(): state.show_or_muck_hole_cards(); continue
            if step(state,rng) is None: return
    probe(state,rng,False)
for seed in range(int(sys.argv[1])):
    try: run(seed)
    except Exception as e: note(('harness',type(e).__name__,str(e)[:60]),seed)
for k,v in found.most_common(): print(v,k,str(exs[k])[:200])
