"""prototype: observe every op via State._update wrap; check chips + cards mid-cascade"""
import sys, random, warnings, collections, traceback
from collections import Counter
warnings.simplefilter('ignore')
import e4
from e4 import *
import pokerkit.state as S
viol=[]
orig=S.State._update
def wrapped(self, operation=None):
    orig(self, operation)
    if operation is None: return
    try:
        total=sum(self.starting_stacks)
        chips=sum(self.stacks)+sum(self.bets)+sum(p.amount for p in self.pots)
        assert chips==total, ('chips',chips,total,type(operation).__name__)
        cards=Counter(self.deck_cards)+Counter(self.burn_cards)+Counter(self.mucked_cards)
        for l in self.board_cards: cards+=Counter(l)
        for l in self.hole_cards: cards+=Counter(l)
        for l in self.discarded_cards: cards+=Counter(l)
        assert cards==Counter(self.deck), ('cards',type(operation).__name__)
    except AssertionError as e:
        viol.append(str(e))
S.State._update=wrapped
def run(seed):
    rng=random.Random(seed); random.seed(seed)
    g=rng.choice(GL); n=rng.randint(2,MAXP.get(g,9))
    autos=tuple(a for a in ALL if rng.random()<rng.choice([0.2,0.5,0.8])); mode=rng.choice(list(Mode))
    stacks=[rng.choice([1,2,3,5,8,13,20,40,100,200]) for _ in range(n)]
    sbc = rng.choice([1,1,1,2]) if g in ('NT','PO','FO8','FT') else 1
    state=mk(g,autos,rng,n,mode=mode,starting_board_count=sbc)(stacks,n)
    while state.status:
        if state.can_show_or_muck_hole_cards() and not state.can_select_runout_count():
            state.show_or_muck_hole_cards(); continue
        if step(state,rng) is None: return 'stuck'
    return 'ok'
res=collections.Counter()
for seed in range(int(sys.argv[1])):
    viol.clear()
    try: r=run(seed)
    except Exception as e: r='exc '+type(e).__name__+str(e)[:50]
    if viol: r='VIOL '+viol[0][:80]
    res[r]+=1
print(res.most_common(8))
