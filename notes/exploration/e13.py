from pokerkit import *
from fractions import Fraction
A=Automation
# C02 hi-lo side pot: P0 short with qualifying low; P1,P2 deep, no low.
s=FixedLimitOmahaHoldemHighLowSplitEightOrBetter.create_state(
 (A.ANTE_POSTING,A.BET_COLLECTION,A.BLIND_OR_STRADDLE_POSTING,A.CARD_BURNING,A.HOLE_CARDS_SHOWING_OR_MUCKING,A.HAND_KILLING,A.CHIPS_PUSHING,A.CHIPS_PULLING),
 True,0,(1,2),2,4,(2,100,100),3)
s.deal_hole('Ac2c3d4d')  # P0: low draw
s.deal_hole('KsKhQsQh')  # P1
s.deal_hole('JsJhTsTh')  # P2
print('actor',s.actor_index)
s.complete_bet_or_raise_to(4)  # P2 raises
s.check_or_call()  # P0 all in 2? P0 posted 1 has 1 left -> calls 1
s.check_or_call()  # P1
s.deal_board('5h6h9c')
while s.actor_index is not None:
    if s.can_complete_bet_or_raise_to() and s.street_index==1 and s.bets==[0,0,0]: s.complete_bet_or_raise_to()
    else: s.check_or_call()
    if s.can_deal_board(): break
s.deal_board('Kd')
while s.actor_index is not None: s.check_or_call()
s.deal_board('2d')
while s.actor_index is not None: s.check_or_call()
print(s.status, s.stacks, s.payoffs)
for op in s.operations:
    if type(op).__name__=='ChipsPushing': print(op)
# C11
s=FixedLimitOmahaHoldemHighLowSplitEightOrBetter.create_state(tuple(A),True,0,(1,2),2,4,100,3)
print('FO8 structure',s.betting_structure,'min',s.min_completion_betting_or_raising_to_amount,'max',s.max_completion_betting_or_raising_to_amount,[st.max_completion_betting_or_raising_count for st in s.streets])
# C18
print(calculate_equities((parse_range('AsKs'),parse_range('QhQd')), Card.parse('KhQs9c9dTd'), 2, 5, Deck.STANDARD, (StandardHighHand, EightOrBetterLowHand), sample_count=10))
print(calculate_equities((parse_range('AsKs'),parse_range('QhQd')), Card.parse('KhQs9c9dTd'), 2, 5, Deck.STANDARD, (StandardHighHand,), sample_count=10))
