"""prototype C18: equities vs engine split at simulated showdowns, SimExecutor, RNG seam"""
import sys, random, warnings, collections, traceback
from fractions import Fraction
from concurrent.futures import Executor, Future
warnings.simplefilter('ignore')
import e4
from e4 import *
from pokerkit import calculate_equities, Deck
from pokerkit.state import *
class SimExecutor(Executor):
    def __init__(self,rng): self.rng=rng; self.ran=[]
    def map(self, fn, *iterables, timeout=None, chunksize=1):
        args=list(zip(*iterables)); order=list(range(len(args))); self.rng.shuffle(order)
        res=[None]*len(args)
        for i in order: res[i]=fn(*args[i]); self.ran.append(i)
        return iter(res)
    def submit(self, fn, *a, **k):
        f=Future(); f.set_result(fn(*a,**k)); return f
def run(seed):
    rng=random.Random(seed); random.seed(seed)
    g=rng.choice(['NT','PO','FO8','F7S8','FR','NS','FT']); n=rng.randint(2,5)
    ex=lambda a,b:(Fraction(a)/b,Fraction(0))
    state=mk(g,tuple(Automation),rng,n,mode=Mode.TOURNAMENT,divmod=ex)(Fraction(200),n)
    # everyone checks/calls to showdown: one pot
    while state.status:
        if state.can_stand_pat_or_discard(): state.stand_pat_or_discard(); continue
        if state.can_post_bring_in(): state.post_bring_in(); continue
        if state.actor_index is not None: state.check_or_call(); continue
        return ('stuck',)
    # final: holes were mucked for losers (hand killing) -> recover from ops
    holes=collections.defaultdict(list)
    for op in state.operations:
        if isinstance(op,HoleDealing): holes[op.player_index]+=list(op.cards)
    board=[c for row in state.board_cards for c in row]
    total=sum(-min(p,0) for p in state.payoffs) + 0
    contrib=[Fraction(200)-s for s in state.starting_stacks]
    pot=sum(state.starting_stacks)-sum(s for s in state.stacks)  # 0; use winnings instead
    wins=[state.stacks[i]-state.starting_stacks[i] for i in range(n)]
    put=None
    # contributions equal (everyone called): c each
    c=None
    for op in state.operations: pass
    # share of pot: (payoff + contribution)/pot ; contribution = same for all = pot/n
    ops=[op for op in state.operations if isinstance(op,ChipsPushing)]
    potamt=sum(sum(op.amounts) for op in ops)
    share=[sum(op.amounts[i] for op in ops)/potamt for i in range(n)]
    hd=len(holes[0]); bd=len(board)
    r1=calculate_equities([[holes[i]] for i in range(n)], board, hd, bd, state.deck, state.hand_types, sample_count=rng.choice([1,7,20]))
    r2=calculate_equities([[holes[i]] for i in range(n)], board, hd, bd, state.deck, state.hand_types, sample_count=rng.choice([1,7,20]), executor=SimExecutor(rng))
    if any(abs(a-b)>1e-12 for a,b in zip(r1,r2)): return ('sched-dependent',str((r1,r2)))
    if abs(sum(r1)-1)>1e-9 or min(r1)<0: return ('not-distribution',str(r1))
    if any(abs(float(s)-e)>1e-9 for s,e in zip(share,r1)): return ('engine-diff',g,str(([str(x) for x in share],r1)))
    return ('ok',g)
res=collections.Counter(); ex={}
for seed in range(int(sys.argv[1])):
    try: r=run(seed)
    except Exception as e: r=('harness',type(e).__name__,str(e)[:80]); traceback.print_exc(limit=3)
    res[r[:2]]+=1; ex.setdefault(r[:2],(seed,r))
for k,v in res.most_common(): print(v,k,str(ex[k])[:300])
