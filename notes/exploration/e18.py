"""prototype C14 end-state board structure invariants"""
import sys, random, warnings, collections, traceback
warnings.simplefilter('ignore')
import e4
from e4 import *
from pokerkit.state import *
def run(seed):
    rng=random.Random(seed); random.seed(seed)
    g=rng.choice(['NT','PO','FO8','FT','NS']); n=rng.randint(2,6)
    autos=tuple(a for a in ALL if rng.random()<0.6 and a!=Automation.RUNOUT_COUNT_SELECTION); mode=Mode.CASH_GAME
    stacks=[rng.choice([2,3,5,8,13,20,40]) for _ in range(n)]
    sbc = rng.choice([1,1,2])
    state=mk(g,autos,rng,n,mode=mode,starting_board_count=sbc)(stacks,n)
    prefs=[]; pre_allin_rows=None
    while state.status:
        k=len(state.operations)
        if state.can_select_runout_count() and pre_allin_rows is None:
            pre_allin_rows=[list(r) for r in state.board_cards]
        if step(state,rng) is None: return ('stuck',)
        for op in state.operations[k:]:
            if isinstance(op,RunoutCountSelection): prefs.append(op.runout_count)
    expressed=[p for p in prefs if p is not None]
    r = (expressed[0] if len(set(expressed))==1 else 1) if expressed else None
    if state.runout_count!=r: return ('consensus',prefs,state.runout_count)
    if sum(state.statuses)<2 and False: return ('ok','nolive')
    total=sum(s.board_dealing_count for s in state.streets)
    reached_end = any(isinstance(op,ChipsPushing) and op.board_index is not None for op in state.operations)
    if not reached_end: return ('ok','noshowdown')
    B=state.board_count
    exp=sbc*(r or 1) if state.street_return_index is not None else sbc
    if B!=sbc*(r if (r and state.street_return_index is not None) else 1): return ('boardcount',B,sbc,r)
    boards=[tuple(state.get_board_cards(i)) for i in range(B)]
    if any(len(b)!=total for b in boards): return ('incomplete',str(boards),prefs,sbc,str(state.board_cards))
    allc=[c for row in state.board_cards for c in row]+[c for h in state.hole_cards for c in h]
    if len(set(allc))!=len(allc): return ('dup',)
    if r and r>1:
        m=len(pre_allin_rows)
        for s0 in range(sbc):
            grp=boards[s0*r:(s0+1)*r]
            if len(set(b[:m] for b in grp))!=1: return ('prefix',str(boards),m)
            if m<total and len(set(b[m:] for b in grp))!=r: return ('samerunout',)
        if m and sbc>1 and boards[0][:m]==boards[r][:m]: return ('startboards-same',)
    return ('ok','r=%s b=%s'%(r,sbc))
res=collections.Counter(); ex={}
for seed in range(int(sys.argv[1])):
    try: r=run(seed)
    except Exception as e: r=('harness',type(e).__name__,str(e)[:80]); traceback.print_exc(limit=2)
    res[r[:2]]+=1; ex.setdefault(r[:2],(seed,r))
for k,v in res.most_common(): print(v,k,ex[k])
