"""prototype R-OPEN for stud games"""
import sys, random, warnings, collections, traceback
warnings.simplefilter('ignore')
import e4
from e4 import *
from pokerkit.state import *
from collections import Counter
STD='23456789TJQKA'; REG='A23456789TJQK'; SUITS='cdhs'
def up_hand_key(cards, order):
    ranks=sorted((order.index(c.rank.value) for c in cards), reverse=True)
    cnt=Counter(ranks)
    groups=sorted(cnt.items(), key=lambda kv:(-kv[1],-kv[0]))
    shape=tuple(sorted(cnt.values(), reverse=True))
    cat={ (1,):0,(1,1):0,(1,1,1):0,(1,1,1,1):0,(2,):1,(2,1):1,(2,1,1):1,(2,2):2,(3,):3,(3,1):3,(4,):4}[shape]
    return (cat, tuple(r for r,c in groups for _ in range(c)))
def expected_opener(state):
    st=state.street; n=state.player_count
    ups={i:list(state.get_up_cards(i)) for i in range(n) if state.statuses[i]}
    op=st.opening
    if op==Opening.LOW_CARD:
        best=min(ups, key=lambda i:(min((STD.index(c.rank.value),SUITS.index(c.suit.value)) for c in ups[i]), i))
    elif op==Opening.HIGH_CARD:
        best=min(ups, key=lambda i:(tuple(-x for x in max((REG.index(c.rank.value),SUITS.index(c.suit.value)) for c in ups[i])), i))
    elif op==Opening.HIGH_HAND:
        # more cards doesn't matter (all same count); compare cat then ranks
        best=min(ups, key=lambda i:(tuple(-x for x in (up_hand_key(ups[i],STD)[0],)+up_hand_key(ups[i],STD)[1]), i))
    elif op==Opening.LOW_HAND:
        best=min(ups, key=lambda i:((up_hand_key(ups[i],REG)[0],)+up_hand_key(ups[i],REG)[1], i))
    # pass clockwise to someone who can act
    for k in range(n):
        j=(best+k)%n
        if state.statuses[j] and state.stacks[j]>0: return j
    return None
def run(seed):
    rng=random.Random(seed); random.seed(seed)
    g=rng.choice(['F7S','F7S8','FR']); n=rng.randint(2,7)
    stacks=[rng.choice([3,5,8,13,20,40,100]) for _ in range(n)]
    state=mk(g,tuple(Automation),rng,n,mode=rng.choice(list(Mode)))(stacks,n)
    street=None; checked=0
    while state.status:
        if state.street_index!=street:
            street=state.street_index
            if state.actor_index is not None:
                e=expected_opener(state); checked+=1
                if e!=state.actor_index: return ('diff',g,street,e,state.actor_index,str([(i,list(state.get_up_cards(i))) for i in range(n) if state.statuses[i]]), state.stacks)
        if step(state,rng) is None: return ('stuck',)
    return ('ok',g)
res=collections.Counter(); ex={}
for seed in range(int(sys.argv[1])):
    try: r=run(seed)
    except Exception as e: r=('harness',type(e).__name__,str(e)[:80]); traceback.print_exc(limit=2)
    res[r[:2]]+=1; ex.setdefault(r[:2],(seed,r))
for k,v in res.most_common(): print(v,k,str(ex[k])[:400])
