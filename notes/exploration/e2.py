import random, sys, time, traceback, collections
from pokerkit import *
A=Automation
ALL=list(Automation)
GAMES = {
 'NT': lambda a,rng,n,**k: NoLimitTexasHoldem(a, True, rng.choice([0,1]), (1,2), 2, **k),
 'FT': lambda a,rng,n,**k: FixedLimitTexasHoldem(a, True, 0, (1,2), 2, 4, **k),
 'PO': lambda a,rng,n,**k: PotLimitOmahaHoldem(a, True, 0, (1,2), 2, **k),
 'FO8': lambda a,rng,n,**k: FixedLimitOmahaHoldemHighLowSplitEightOrBetter(a, True, 0, (1,2), 2, 4, **k),
 'NS': lambda a,rng,n,**k: NoLimitShortDeckHoldem(a, True, 1, (0,0), 2, **k) if False else NoLimitShortDeckHoldem(a, False, {-1:2}, 0, 2, **k),
 'F7S': lambda a,rng,n,**k: FixedLimitSevenCardStud(a, True, 1, 1, 2, 4, **k),
 'F7S8': lambda a,rng,n,**k: FixedLimitSevenCardStudHighLowSplitEightOrBetter(a, True, 1, 1, 2, 4, **k),
 'FR': lambda a,rng,n,**k: FixedLimitRazz(a, True, 1, 1, 2, 4, **k),
 'N2L1D': lambda a,rng,n,**k: NoLimitDeuceToSevenLowballSingleDraw(a, True, 0, (1,2), 2, **k),
 'F2L3D': lambda a,rng,n,**k: FixedLimitDeuceToSevenLowballTripleDraw(a, True, 0, (1,2), 2, 4, **k),
 'FB': lambda a,rng,n,**k: FixedLimitBadugi(a, True, 0, (1,2), 2, 4, **k),
 'NR': lambda a,rng,n,**k: NoLimitRoyalHoldem(a, True, 0, (1,2), 2, **k),
}
MAXP={'NR':6,'F7S':8,'F7S8':8,'FR':8,'FB':6,'F2L3D':6,'N2L1D':6,'NS':6}
def step(state, rng):
    """one manual step with defaults; returns name"""
    if state.can_post_ante(): state.post_ante(); return 'ante'
    if state.can_collect_bets(): state.collect_bets(); return 'collect'
    if state.can_post_blind_or_straddle(): state.post_blind_or_straddle(); return 'blind'
    if state.can_burn_card(): state.burn_card(); return 'burn'
    if state.can_deal_hole(): state.deal_hole(); return 'hole'
    if state.can_deal_board(): state.deal_board(); return 'board'
    if state.can_stand_pat_or_discard():
        i=state.stander_pat_or_discarder_index
        cards=[c for c in state.hole_cards[i] if rng.random()<0.3]
        state.stand_pat_or_discard(cards); return 'draw'
    if state.can_post_bring_in():
        if rng.random()<0.7 or not state.can_complete_bet_or_raise_to(): state.post_bring_in(); return 'bringin'
        state.complete_bet_or_raise_to(); return 'complete'
    if state.actor_index is not None:
        r=rng.random()
        if r<0.15 and state.can_fold(): state.fold(); return 'fold'
        if r<0.6 or not state.can_complete_bet_or_raise_to(): state.check_or_call(); return 'cc'
        lo=state.min_completion_betting_or_raising_to_amount; hi=state.max_completion_betting_or_raising_to_amount
        amt = rng.choice([lo,hi,rng.randint(lo,hi)])
        state.complete_bet_or_raise_to(amt); return 'cbr'
    if state.can_select_runout_count(): state.select_runout_count(rng.choice([None,1,2,2,3])); return 'runout'
    if state.can_show_or_muck_hole_cards(): state.show_or_muck_hole_cards(); return 'show'
    if state.can_kill_hand(): state.kill_hand(); return 'kill'
    if state.can_push_chips(): state.push_chips(); return 'push'
    if state.can_pull_chips(): state.pull_chips(); return 'pull'
    return None

def run(seed):
    rng=random.Random(seed)
    random.seed(seed)
    g=rng.choice(list(GAMES))
    n=rng.randint(2,MAXP.get(g,9))
    autos=tuple(a for a in ALL if rng.random()<rng.choice([0.2,0.5,0.8]))
    mode=rng.choice(list(Mode))
    stacks=[rng.choice([1,2,3,5,8,13,20,40,100,200]) for _ in range(n)]
    desc=(g,n,tuple(a.name for a in autos),mode.name,stacks)
    try:
        game=GAMES[g](autos,rng,n,mode=mode)
        state=game(stacks,n)
    except Exception as e:
        return ('ctor',type(e).__name__,str(e)[:80],desc)
    k=0
    while state.status:
        k+=1
        if k>2000: return ('nonterm',desc)
        try:
            r=step(state,rng)
        except Exception as e:
            return ('op',type(e).__name__,str(e)[:80],desc)
        if r is None: return ('stuck',desc)
        assert sum(state.stacks)+sum(state.bets)+sum(p.amount for p in state.pots)==sum(stacks),(desc,)
    return ('ok',len(state.operations))
t=time.time(); res=collections.Counter(); ex={}
N=int(sys.argv[1]); ops=0
for seed in range(N):
    r=run(seed)
    key=r[:3] if r[0] in('ctor','op') else r[:1]
    res[key]+=1; ex.setdefault(key,(seed,r))
    if r[0]=='ok': ops+=r[1]
dt=time.time()-t
print(N/dt,'hands/s', ops/dt,'ops/s')
for k,v in res.most_common(): print(v,k, ex[k])
