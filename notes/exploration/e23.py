"""prototype C12: automatic show/muck+kill vs everyone shows; replay same history"""
import sys, random, warnings, collections, traceback, hashlib
import random as _r
SEED='0'
def sim_shuffle(x):
    items=list(x)
    keyed=sorted(range(len(items)), key=lambda i: hashlib.sha1((SEED+repr(items[i])+str(items[:i].count(items[i]))).encode()).digest())
    out=[items[i] for i in keyed]
    if isinstance(x,list): x[:]=out
    else: x.clear(); x.extend(out)
_r.shuffle=sim_shuffle
warnings.simplefilter('ignore')
import e4
from e4 import *
from pokerkit.state import *
sys.argv=[sys.argv[0],'0']
from e9 import apply
def run(seed):
    global SEED
    SEED=str(seed)
    rng=random.Random(seed)
    g=rng.choice(GL); n=rng.randint(2,MAXP.get(g,7))
    autos=tuple(a for a in ALL if a!=Automation.HOLE_CARDS_SHOWING_OR_MUCKING); mode=rng.choice(list(Mode))
    stacks=[rng.choice([1,2,3,5,8,13,20,40,100,200]) for _ in range(n)]
    sbc = rng.choice([1,1,2]) if g in ('NT','PO','FO8','FT') else 1
    st=rng.getstate()
    A=mk(g,autos,rng,n,mode=mode,starting_board_count=sbc)(stacks,n)
    while A.status:
        if A.can_show_or_muck_hole_cards(): A.show_or_muck_hole_cards(); continue
        if step(A,rng) is None: return ('stuck',)
    rng.setstate(st)
    B=mk(g,autos,rng,n,mode=mode,starting_board_count=sbc)(stacks,n)
    # replay A's user decisions on B except showdown: show all
    i=0
    ops=[op for op in A.operations if isinstance(op,(Folding,CheckingOrCalling,BringInPosting,CompletionBettingOrRaisingTo,StandingPatOrDiscarding))]
    j=0
    guard=0
    while B.status:
        guard+=1
        if guard>500: return ('nonterm',)
        if B.can_show_or_muck_hole_cards(): B.show_or_muck_hole_cards(True); continue
        if B.can_stand_pat_or_discard() or B.actor_index is not None:
            apply(B,ops[j]); j+=1; continue
        return ('B-stuck',)
    if A.payoffs!=B.payoffs: return ('payoffs-diff',g,str((A.payoffs,B.payoffs)))
    showdown=any(isinstance(op,HoleCardsShowingOrMucking) for op in A.operations)
    mucked=sum(1 for op in A.operations if isinstance(op,HoleCardsShowingOrMucking) and not op.hole_cards)
    return ('ok','showdown mucks=%d'%min(mucked,2) if showdown else 'noshow')
res=collections.Counter(); ex={}
for seed in range(int(sys.argv[1]) if False else 1500):
    try: r=run(seed)
    except Exception as e: r=('harness',type(e).__name__,str(e)[:80]); traceback.print_exc(limit=2)
    res[r[:2]]+=1; ex.setdefault(r[:2],(seed,r))
for k,v in res.most_common(): print(v,k,str(ex[k])[:300])
