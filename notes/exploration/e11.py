"""prototype: C16 PHH round trip"""
import sys, random, warnings, collections, traceback, io
warnings.simplefilter('ignore')
import e4
from e4 import *
from pokerkit import HandHistory
PHHV=['NT','FT','PO','FO8','NS','F7S','F7S8','FR','N2L1D','F2L3D','FB']
def run(seed):
    rng=random.Random(seed); random.seed(seed)
    g=rng.choice(PHHV); n=rng.randint(2,MAXP.get(g,9))
    autos=tuple(a for a in ALL if rng.random()<rng.choice([0.2,0.5,0.8]) and a!=Automation.RUNOUT_COUNT_SELECTION)+(Automation.RUNOUT_COUNT_SELECTION,)
    mode=rng.choice(list(Mode))
    stacks=[rng.choice([1,2,3,5,8,13,20,40,100,200]) for _ in range(n)]
    game=mk(g,autos,rng,n,mode=mode)
    state=game(stacks,n)
    stop=rng.choice([None,None,rng.randint(0,60)])
    k=0
    while state.status:
        if stop is not None and k>=stop: break
        k+=1
        if state.can_show_or_muck_hole_cards():
            state.show_or_muck_hole_cards(); continue
        if step(state,rng) is None: return ('stuck',)
    hh=HandHistory.from_game_state(game,state,compression_status=rng.choice([True,False]), _foo="it's", hand=seed)
    text=hh.dumps()
    buf=io.BytesIO(); hh.dump(buf); buf.seek(0)
    hh2=HandHistory.load(buf)
    if hh2!=hh: return ('hh-neq', str([(f,getattr(hh,f),getattr(hh2,f)) for f in hh.__dataclass_fields__ if getattr(hh,f)!=getattr(hh2,f)])[:300])
    if hh2.dumps()!=text: return ('text-neq',)
    try:
        final=list(hh2)[-1]
    except Exception as e:
        return ('replay-exc', type(e).__name__+':'+str(e)[:80], g, state.status)
    if not state.status:
        if final.status: return ('replay-not-terminal',g)
        if final.stacks!=state.stacks: return ('stacks-diff',g,str((state.stacks,final.stacks, state.ante_trimming_status)))
        if final.payoffs!=state.payoffs: return ('payoffs-diff',g)
    hh3=HandHistory.from_game_state(hh2.create_game(),final,compression_status=False)
    hhu=HandHistory.from_game_state(game,state,compression_status=False)
    if state.status:
        # partial: actions of replay should start with the original's actions
        if hh3.actions[:len(hhu.actions)]!=hhu.actions and hhu.actions[:len(hh3.actions)]!=hh3.actions: return ('partial-actions-diff',g,str((hhu.actions[-5:],hh3.actions[-5:])))
    elif hh3.actions!=hhu.actions: return ('actions-diff',g,str([ (a,b) for a,b in zip(hhu.actions,hh3.actions) if a!=b][:3])+str((len(hhu.actions),len(hh3.actions))))
    return ('ok','partial' if state.status else 'terminal')
res=collections.Counter(); ex={}
for seed in range(int(sys.argv[1])):
    try: r=run(seed)
    except Exception as e: r=('harness',type(e).__name__,str(e)[:80]); traceback.print_exc()
    res[r[:2]]+=1; ex.setdefault(r[:2],(seed,r))
for k,v in res.most_common(): print(v,k,ex[k])
