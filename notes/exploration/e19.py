"""prototype C17: ACPC / Pluribus output, prefix consistency, parse back"""
import sys, random, warnings, collections, traceback
warnings.simplefilter('ignore')
import e4
from e4 import *
from pokerkit import HandHistory
from pokerkit.state import *
def run(seed):
    rng=random.Random(seed); random.seed(seed)
    g=rng.choice(['NT','FT']); n=rng.randint(2,6)
    autos=tuple(a for a in ALL if a not in (Automation.HOLE_DEALING,Automation.BOARD_DEALING) ) 
    stack=rng.choice([20,50,200])
    if g=='NT': game=NoLimitTexasHoldem(tuple(Automation),True,0,(1,2),2,mode=Mode.CASH_GAME)
    else: game=FixedLimitTexasHoldem(tuple(Automation),True,0,(1,2),2,4,mode=Mode.CASH_GAME)
    state=game(stack,n)
    while state.status:
        if step(state,rng) is None: return ('stuck',)
    hh=HandHistory.from_game_state(game,state,hand=seed)
    out=[]
    for pos in range(n):
        try: lines=list(hh.to_acpc_protocol(pos))
        except Exception as e: return ('acpc-exc',type(e).__name__+str(e)[:60])
        prev=None
        for d,l in lines:
            if d=='S->':
                f=l.strip().split(':')
                if f[0]!='MATCHSTATE' or int(f[1])!=pos or int(f[2])!=seed: return ('fmt',l)
                if prev is not None and not f[3].startswith(prev): return ('prefix',prev,f[3])
                prev=f[3]
        out.append(lines)
    if g=='NT':
        line=hh.to_pluribus_protocol()
        f=line.split(':')
        pay=[int(x) for x in f[4].split('|')]
        if pay!=list(state.payoffs): return ('payoffs',line,state.payoffs)
        game0=NoLimitTexasHoldem((),True,0,(1,2),2)
        try:
            hs=list(HandHistory.from_acpc_protocol(game0,stack,line,error_status=True))
        except Exception as e: return ('parse-exc',type(e).__name__+str(e)[:80],line)
        if len(hs)!=1: return ('parse-count',len(hs))
        h2=hs[0]
        fin=list(h2)[-1]
        if fin.stacks!=state.stacks: return ('stacks',line,str(fin.stacks),str(state.stacks))
        l2=h2.to_pluribus_protocol()
        if l2!=line: return ('line-neq',line,l2)
    return ('ok',g)
res=collections.Counter(); ex={}
for seed in range(int(sys.argv[1])):
    try: r=run(seed)
    except Exception as e: r=('harness',type(e).__name__,str(e)[:80]); traceback.print_exc(limit=2)
    res[r[:2]]+=1; ex.setdefault(r[:2],(seed,r))
for k,v in res.most_common(): print(v,k,ex[k])
