"""prototype: C16 PHH round trip, abstracted comparison"""
import sys, random, warnings, collections, traceback, io
from decimal import Decimal
warnings.simplefilter('ignore')
import e4
from e4 import *
from pokerkit import HandHistory
from pokerkit.state import *
PHHV=['NT','FT','PO','FO8','NS','F7S','F7S8','FR','N2L1D','F2L3D','FB']
def abstract(state):
    acts=[]; holes=collections.defaultdict(list); board=[]
    for op in state.operations:
        if isinstance(op,(Folding,CheckingOrCalling,BringInPosting,CompletionBettingOrRaisingTo,StandingPatOrDiscarding,HoleCardsShowingOrMucking)): acts.append(op)
        elif isinstance(op,HoleDealing): holes[op.player_index]+= list(zip(op.cards,op.statuses))
        elif isinstance(op,BoardDealing): board+=list(op.cards)
    return acts,dict(holes),board
def run(seed):
    rng=random.Random(seed); random.seed(seed)
    g=rng.choice(PHHV); n=rng.randint(2,MAXP.get(g,9))
    autos=tuple(a for a in ALL if rng.random()<rng.choice([0.2,0.5,0.8]) and a!=Automation.RUNOUT_COUNT_SELECTION)+(Automation.RUNOUT_COUNT_SELECTION,)
    mode=rng.choice(list(Mode))
    dec=rng.random()<0.3
    stacks=[rng.choice([1,2,3,5,8,13,20,40,100,200]) for _ in range(n)]
    if dec: stacks=[Decimal(s)+Decimal('0.50') for s in stacks]
    game=mk(g,autos,rng,n,mode=mode)
    state=game(stacks,n)
    while state.status:
        if state.can_show_or_muck_hole_cards():
            state.show_or_muck_hole_cards(rng.choice([None,None,None,True,False]) if state.can_show_or_muck_hole_cards(False) and sum(state.statuses)>2 else None); continue
        if step(state,rng) is None: return ('stuck',)
    hh=HandHistory.from_game_state(game,state,compression_status=rng.choice([True,False]), _foo="it's", hand=seed)
    text=hh.dumps()
    buf=io.BytesIO(); hh.dump(buf); buf.seek(0)
    hh2=HandHistory.load(buf)
    if hh2!=hh: return ('hh-neq', str([(f,getattr(hh,f),getattr(hh2,f)) for f in hh.__dataclass_fields__ if getattr(hh,f)!=getattr(hh2,f)])[:300])
    if hh2.dumps()!=text: return ('text-neq',)
    try:
        final=list(hh2)[-1]
    except Exception as e:
        return ('replay-exc', type(e).__name__+':'+str(e)[:80], g, state.status)
    if final.status: return ('replay-not-terminal',g)
    if final.stacks!=state.stacks: return ('stacks-diff',g,str((state.stacks,final.stacks, state.ante_trimming_status,state.antes,state.starting_stacks)))
    if final.payoffs!=state.payoffs: return ('payoffs-diff',g)
    a,b=abstract(state),abstract(final)
    if a!=b: return ('abstract-diff',g,str([(x,y) for x,y in zip(a[0],b[0]) if x!=y][:2])+str((a[2],b[2])))
    return ('ok','dec' if dec else 'int')
res=collections.Counter(); ex={}
for seed in range(int(sys.argv[1])):
    try: r=run(seed)
    except Exception as e: r=('harness',type(e).__name__,str(e)[:80]); traceback.print_exc()
    res[r[:2]]+=1; ex.setdefault(r[:2],(seed,r))
for k,v in res.most_common(): print(v,k,ex[k])
