"""prototype: C15 log replay, C09 automation twin, on e4 generator"""
import sys, random, warnings, collections, traceback, dataclasses, copy
warnings.simplefilter('ignore')
import e4
from e4 import *
from pokerkit.state import *
def pub(state):
    d={}
    for f in dataclasses.fields(state):
        if f.name in ('operations','deck_cards','divmod','rake','automations'): continue
        d[f.name]=repr(getattr(state,f.name))
    return d
def apply(state, op):
    c=op.commentary
    if isinstance(op,AntePosting): return state.post_ante(op.player_index,commentary=c)
    if isinstance(op,BetCollection): return state.collect_bets(commentary=c)
    if isinstance(op,BlindOrStraddlePosting): return state.post_blind_or_straddle(op.player_index,commentary=c)
    if isinstance(op,CardBurning): return state.burn_card(op.card,commentary=c)
    if isinstance(op,HoleDealing): return state.deal_hole(op.cards,op.player_index,commentary=c)
    if isinstance(op,BoardDealing): return state.deal_board(op.cards,commentary=c)
    if isinstance(op,StandingPatOrDiscarding): return state.stand_pat_or_discard(op.cards,commentary=c)
    if isinstance(op,Folding): return state.fold(commentary=c)
    if isinstance(op,CheckingOrCalling): return state.check_or_call(commentary=c)
    if isinstance(op,BringInPosting): return state.post_bring_in(commentary=c)
    if isinstance(op,CompletionBettingOrRaisingTo): return state.complete_bet_or_raise_to(op.amount,commentary=c)
    if isinstance(op,RunoutCountSelection): return state.select_runout_count(op.runout_count,op.player_index,commentary=c)
    if isinstance(op,HoleCardsShowingOrMucking): return state.show_or_muck_hole_cards(op.hole_cards if op.hole_cards else False,op.player_index,commentary=c)
    if isinstance(op,HandKilling): return state.kill_hand(op.player_index,commentary=c)
    if isinstance(op,ChipsPushing): return state.push_chips(commentary=c)
    if isinstance(op,ChipsPulling): return state.pull_chips(op.player_index,commentary=c)
    raise TypeError(op)
def run(seed):
    rng=random.Random(seed); random.seed(seed)
    g=rng.choice(GL); n=rng.randint(2,MAXP.get(g,9))
    autos=tuple(a for a in ALL if rng.random()<rng.choice([0.2,0.5,0.8])); mode=rng.choice(list(Mode))
    stacks=[rng.choice([1,2,3,5,8,13,20,40,100,200]) for _ in range(n)]
    sbc = rng.choice([1,1,1,2]) if g in ('NT','PO','FO8','FT') else 1
    st=rng.getstate()
    game=mk(g,autos,rng,n,mode=mode,starting_board_count=sbc)
    state=game(stacks,n)
    while state.status:
        if state.can_show_or_muck_hole_cards() and not state.can_select_runout_count():
            state.show_or_muck_hole_cards(); continue
        if step(state,rng) is None: return ('stuck',)
    # replay
    rng.setstate(st)
    game0=mk(g,(),rng,n,mode=mode,starting_board_count=sbc)
    s2=game0(stacks,n)
    try:
        for op in state.operations:
            r=apply(s2,op)
            if r!=op: return ('replay-op-diff',type(op).__name__,str((op,r))[:150])
    except Exception as e:
        return ('replay-exc',type(op).__name__,type(e).__name__+':'+str(e)[:100])
    if s2.operations!=state.operations: return ('replay-log-diff',)
    a,b=pub(state),pub(s2)
    diff=[k for k in a if a[k]!=b[k]]
    if diff: return ('replay-state-diff',tuple(diff), str([(a[k],b[k]) for k in diff])[:200])
    return ('ok',)
res=collections.Counter(); ex={}
for seed in range(int(sys.argv[1])):
    try: r=run(seed)
    except Exception as e: r=('harness',type(e).__name__,str(e)[:80])
    res[r[:2]]+=1; ex.setdefault(r[:2],(seed,r))
for k,v in res.most_common(): print(v,k,ex[k])
