"""prototype R-BET for button games (NT/PO/FT), log-driven, compared with engine at each decision"""
import sys, random, warnings, collections, traceback
warnings.simplefilter('ignore')
import e4
from e4 import *
from pokerkit.state import *
class RBet:
    def __init__(self, n, stacks, structure, mode):
        self.n=n; self.stack=list(stacks); self.bet=[0]*n; self.live=[True]*n; self.structure=structure; self.mode=mode
        self.pot=0; self.queue=[]; self.in_round=False
    def total(self,i): return self.stack[i]+self.bet[i]
    def others_max_total(self,i): 
        v=[self.total(j) for j in range(self.n) if j!=i and self.live[j]]
        return max(v) if v else 0
    def eff(self,i): return min(self.stack[i], max(0, self.others_max_total(i)-self.bet[i]))
    def start_round(self, opener, street_min, cap):
        self.street_min=street_min; self.cap=cap; self.largest=0; self.count=0; self.acted=set(); self.short=0; self.short_active=False
        order=[(opener+k)%self.n for k in range(self.n)]
        self.queue=[i for i in order if self.live[i] and self.stack[i]>0 and self.eff(i)>0]
        if len(self.queue)==1 and self.bet[self.queue[0]]>=max(self.bet): self.queue=[]
        self.in_round=bool(self.queue) and sum(self.live)>1
        if not self.in_round: self.queue=[]
    def actor(self): return self.queue[0] if self.queue else None
    def cur(self): return max(self.bet)
    def call_amount(self): i=self.actor(); return min(self.stack[i], self.cur()-self.bet[i])
    def can_fold(self): 
        i=self.actor()
        return 'warn' if self.bet[i]>=self.cur() and self.mode==Mode.CASH_GAME else self.bet[i]<self.cur()
    def raise_interval(self):
        i=self.actor(); cur=self.cur()
        if self.cap is not None and self.count==self.cap: return None
        if self.short_active and self.short<self.largest and i in self.acted: return None   # rule 96
        if self.stack[i]<=cur-self.bet[i]: return None
        if not any(j!=i and self.live[j] and self.total(j)>cur for j in range(self.n)): return None
        amount=cur+max(self.largest,self.street_min)
        lo=min(self.eff(i)+self.bet[i], amount)
        if self.structure==BettingStructure.NO_LIMIT: hi=self.total(i)
        elif self.structure==BettingStructure.POT_LIMIT: hi=min(self.total(i), max(lo, 2*cur-self.bet[i]+self.pot+sum(self.bet)))
        else: hi=lo
        return lo,hi
    def end_check(self):
        if not self.queue or sum(self.live)<=1:
            self.queue=[]; self.in_round=False
    def on(self, op):
        if isinstance(op,(AntePosting,BlindOrStraddlePosting)):
            self.stack[op.player_index]-=op.amount; self.bet[op.player_index]+=op.amount
        elif isinstance(op,BetCollection):
            for i in range(self.n):
                back=self.bet[i]-op.bets[i]
                # lone survivor keeps own bet in front (engine record shows 0)
            # simpler: resync from engine after collection (prototype)
        elif isinstance(op,Folding):
            i=self.queue.pop(0); assert i==op.player_index; self.live[i]=False; self.end_check()
        elif isinstance(op,CheckingOrCalling):
            i=self.queue.pop(0); assert i==op.player_index; self.stack[i]-=op.amount; self.bet[i]+=op.amount; self.acted.add(i); self.end_check()
        elif isinstance(op,CompletionBettingOrRaisingTo):
            i=self.queue.pop(0); assert i==op.player_index
            cur=self.cur(); r=op.amount-cur; full = op.amount >= cur+max(self.largest,self.street_min)
            self.stack[i]-=op.amount-self.bet[i]; self.bet[i]=op.amount
            self.queue=[j for j in [(i+k)%self.n for k in range(1,self.n)] if self.live[j] and self.stack[j]>0]
            if full: self.acted={i}; self.short=0; self.short_active=False
            else: self.acted.add(i); self.short+=r; self.short_active=True
            self.largest=max(self.largest,r); self.count+=1
            self.end_check()
def run(seed):
    rng=random.Random(seed); random.seed(seed)
    g=rng.choice(['NT','PO','FT','NS']); n=rng.randint(2,7)
    autos=tuple(Automation); mode=rng.choice(list(Mode))
    stacks=[rng.choice([1,2,3,5,8,13,20,40,100,200]) for _ in range(n)]
    state=mk(g,autos,rng,n,mode=mode)(stacks,n)
    m=RBet(n,stacks,state.betting_structure,mode)
    seen=0; street=None
    def sync():
        nonlocal seen
        for op in state.operations[seen:]:
            m.on(op)
        seen=len(state.operations)
    while state.status:
        sync()
        # resync chips from engine at round starts (prototype shortcut)
        if state.street_index!=street and state.street_index is not None:
            street=state.street_index
            m.stack=list(state.stacks); m.bet=list(state.bets); m.live=list(state.statuses); m.pot=sum(p.amount for p in state.pots)
            if street==0:
                b=state.blinds_or_straddles
                keys=[(state.bets[i]*(1 if b[i]>0 else -1 if b[i]<0 else 0), i) for i in range(n)]
                opener=(max(range(n),key=lambda i:keys[i])+1)%n
            else: opener=0
            m.start_round(opener, state.street.min_completion_betting_or_raising_amount, state.street.max_completion_betting_or_raising_count)
        if m.actor()!=state.actor_index: return ('actor', g, m.actor(), state.actor_index, street)
        if state.actor_index is not None:
            if state.checking_or_calling_amount!=m.call_amount(): return ('call',g)
            f=m.can_fold()
            if (f is True or f=='warn')!=state.can_fold(): return ('fold',g,f,state.can_fold())
            iv=m.raise_interval()
            if iv is None:
                if state.can_complete_bet_or_raise_to(): return ('raise-should-refuse',g,str(state.operations[-6:])[:400], m.short, m.largest, sorted(m.acted))
            else:
                lo,hi=iv
                if state.min_completion_betting_or_raising_to_amount!=lo or state.max_completion_betting_or_raising_to_amount!=hi: return ('interval',g,iv,state.min_completion_betting_or_raising_to_amount,state.max_completion_betting_or_raising_to_amount)
                for x in (lo-1,lo,hi,hi+1):
                    if state.can_complete_bet_or_raise_to(x)!=(lo<=x<=hi): return ('amount',g,x,iv)
        if step(state,rng) is None: return ('stuck',)
    return ('ok',)
res=collections.Counter(); ex={}
for seed in range(int(sys.argv[1])):
    try: r=run(seed)
    except Exception as e: r=('harness',type(e).__name__,str(e)[:80]); traceback.print_exc(limit=3)
    res[r[:2]]+=1; ex.setdefault(r[:2],(seed,r))
for k,v in res.most_common(): print(v,k,ex[k])
