"""prototype: C09 automation twin"""
import sys, random, warnings, collections, traceback, dataclasses, copy, hashlib
import random as _r
def sim_shuffle(x):
    items=list(x); 
    keyed=sorted(range(len(items)), key=lambda i: hashlib.sha1((SEED+repr(items[i])+str(items[:i].count(items[i]))).encode()).digest())
    out=[items[i] for i in keyed]
    if isinstance(x,list): x[:]=out
    else:
        x.clear(); x.extend(out)
SEED='0'
_r.shuffle=sim_shuffle
warnings.simplefilter('ignore')
import e4
from e4 import *
from pokerkit.state import *
import pokerkit.state, pokerkit.utilities
from e9 import apply, pub
A=Automation
OPAUTO={AntePosting:A.ANTE_POSTING,BetCollection:A.BET_COLLECTION,BlindOrStraddlePosting:A.BLIND_OR_STRADDLE_POSTING,CardBurning:A.CARD_BURNING,HoleDealing:A.HOLE_DEALING,BoardDealing:A.BOARD_DEALING,RunoutCountSelection:A.RUNOUT_COUNT_SELECTION,HoleCardsShowingOrMucking:A.HOLE_CARDS_SHOWING_OR_MUCKING,HandKilling:A.HAND_KILLING,ChipsPushing:A.CHIPS_PUSHING,ChipsPulling:A.CHIPS_PULLING}
def auto_step(s, autos):
    """perform one automated step with default args, engine priority; return True if did"""
    if A.ANTE_POSTING in autos and s.can_post_ante(): s.post_ante(); return True
    if A.BET_COLLECTION in autos and s.can_collect_bets(): s.collect_bets(); return True
    if A.BLIND_OR_STRADDLE_POSTING in autos and s.can_post_blind_or_straddle(): s.post_blind_or_straddle(); return True
    if A.CARD_BURNING in autos and s.can_burn_card(): s.burn_card(); return True
    if A.HOLE_DEALING in autos and s.can_deal_hole(): s.deal_hole(); return True
    if A.BOARD_DEALING in autos and s.can_deal_board(): s.deal_board(); return True
    if A.RUNOUT_COUNT_SELECTION in autos and s.can_select_runout_count(): s.select_runout_count(); return True
    if A.HOLE_CARDS_SHOWING_OR_MUCKING in autos and s.can_show_or_muck_hole_cards(): s.show_or_muck_hole_cards(); return True
    if A.HAND_KILLING in autos and s.can_kill_hand(): s.kill_hand(); return True
    if A.CHIPS_PUSHING in autos and s.can_push_chips(): s.push_chips(); return True
    if A.CHIPS_PULLING in autos and s.can_pull_chips(): s.pull_chips(); return True
    return False
def run(seed):
    global SEED
    SEED=str(seed)
    rng=random.Random(seed)
    g=rng.choice(GL); n=rng.randint(2,MAXP.get(g,9))
    autos=tuple(a for a in ALL if rng.random()<rng.choice([0.2,0.5,0.8])); mode=rng.choice(list(Mode))
    stacks=[rng.choice([1,2,3,5,8,13,20,40,100,200]) for _ in range(n)]
    sbc = rng.choice([1,1,1,2]) if g in ('NT','PO','FO8','FT') else 1
    st=rng.getstate()
    game=mk(g,autos,rng,n,mode=mode,starting_board_count=sbc)
    state=game(stacks,n)
    while state.status:
        if state.can_show_or_muck_hole_cards() and not state.can_select_runout_count():
            state.show_or_muck_hole_cards(); continue
        if step(state,rng) is None: return ('stuck',)
    rng.setstate(st)
    game0=mk(g,(),rng,n,mode=mode,starting_board_count=sbc)
    s2=game0(stacks,n)
    i=0
    L=state.operations
    try:
        while i<len(L):
            while auto_step(s2,autos): pass
            k=len(s2.operations)
            if k>i:
                if s2.operations[i:k]!=L[i:k]: return ('auto-diff', str((L[i:k],s2.operations[i:k]))[:300])
                i=k; continue
            op=L[i]
            if OPAUTO.get(type(op)) in autos: return ('expected-auto-but-not-available', type(op).__name__, str(op))
            # user decision; engine-chosen cards: use default (None) to test same deck
            if isinstance(op,(CardBurning,)): r=s2.burn_card()
            elif isinstance(op,HoleDealing): r=s2.deal_hole(len(op.cards), op.player_index)
            elif isinstance(op,BoardDealing): r=s2.deal_board(len(op.cards))
            else: r=apply(s2,op)
            if r!=op: return ('user-op-diff', type(op).__name__, str((op,r))[:200])
            i+=1
        while auto_step(s2,autos): pass
    except Exception as e:
        return ('exc',type(e).__name__+':'+str(e)[:100], str(L[i])[:100])
    if s2.operations!=L: return ('log-diff',len(L),len(s2.operations))
    a,b=pub(state),pub(s2)
    diff=[k for k in a if a[k]!=b[k]]
    if diff: return ('state-diff',tuple(diff))
    return ('ok',)
res=collections.Counter(); ex={}
for seed in range(int(sys.argv[1])):
    try: r=run(seed)
    except Exception as e: r=('harness',type(e).__name__,str(e)[:80]); traceback.print_exc()
    res[r[:2]]+=1; ex.setdefault(r[:2],(seed,r))
for k,v in res.most_common(): print(v,k,ex[k])
