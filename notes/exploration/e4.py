import random, sys, time, traceback, collections, warnings
from fractions import Fraction
from collections import Counter
from pokerkit import *
A=Automation
ALL=list(Automation)
def mk(g,a,rng,n,**k):
    ante = rng.choice([0,0,1,2,{-1:2},{1:2},3])
    ats = rng.choice([True,False])
    bl = rng.choice([(1,2),(1,2),(1,2,4),(2,2),{0:1,1:2,-1:4},(0,2),(1,2,0,-2)]) 
    if isinstance(bl,tuple) and len(bl)>n: bl=(1,2)
    if g in('NT','NR','NS','PO','N2L1D'):
        cls={'NT':NoLimitTexasHoldem,'NR':NoLimitRoyalHoldem,'NS':NoLimitShortDeckHoldem,'PO':PotLimitOmahaHoldem,'N2L1D':NoLimitDeuceToSevenLowballSingleDraw}[g]
        return cls(a,ats,ante,bl,2,**k)
    if g in('FT','FO8','F2L3D','FB'):
        cls={'FT':FixedLimitTexasHoldem,'FO8':FixedLimitOmahaHoldemHighLowSplitEightOrBetter,'F2L3D':FixedLimitDeuceToSevenLowballTripleDraw,'FB':FixedLimitBadugi}[g]
        return cls(a,ats,ante,bl,2,4,**k)
    cls={'F7S':FixedLimitSevenCardStud,'F7S8':FixedLimitSevenCardStudHighLowSplitEightOrBetter,'FR':FixedLimitRazz}[g]
    if isinstance(ante,dict): ante=1
    return cls(a,ats,ante,rng.choice([1,1,0]) if ante else 1,2,4,**k)
GL=['NT','FT','PO','FO8','NS','F7S','F7S8','FR','N2L1D','F2L3D','FB','NR']
MAXP={'NR':4,'F7S':8,'F7S8':8,'FR':8,'FB':6,'F2L3D':6,'N2L1D':6,'NS':6}
def cap_runouts(state):
    # max runouts so deck suffices
    live=sum(state.statuses)
    hole=sum(len(h) for h in state.hole_cards)
    board_total=sum(s.board_dealing_count for s in state.streets)
    done=sum(len(r) for r in state.board_cards)
    free=len(state.deck)-hole-done-1
    rem=(board_total*state.starting_board_count-done)
    if rem<=0: return 1
    return max(1,min(3, free//rem))
def step(state, rng):
    if state.can_post_ante(): 
        i=rng.choice(list(state.ante_poster_indices)); state.post_ante(i); return 'ante'
    if state.can_collect_bets(): state.collect_bets(); return 'collect'
    if state.can_post_blind_or_straddle(): 
        i=rng.choice(list(state.blind_or_straddle_poster_indices)); state.post_blind_or_straddle(i); return 'blind'
    if state.can_burn_card(): state.burn_card(); return 'burn'
    if state.can_deal_hole(): state.deal_hole(); return 'hole'
    if state.can_deal_board(): state.deal_board(); return 'board'
    if state.can_stand_pat_or_discard():
        i=state.stander_pat_or_discarder_index
        cards=[c for c in state.hole_cards[i] if rng.random()<0.3]
        state.stand_pat_or_discard(cards); return 'draw'
    if state.can_post_bring_in():
        if rng.random()<0.7 or not state.can_complete_bet_or_raise_to(): state.post_bring_in(); return 'bringin'
        state.complete_bet_or_raise_to(); return 'complete'
    if state.actor_index is not None:
        r=rng.random()
        if r<0.15 and state.can_fold(): state.fold(); return 'fold'
        if r<0.6 or not state.can_complete_bet_or_raise_to(): state.check_or_call(); return 'cc'
        lo=state.min_completion_betting_or_raising_to_amount; hi=state.max_completion_betting_or_raising_to_amount
        amt = rng.choice([lo,hi,rng.randint(int(lo),int(hi))]) if lo<=hi else lo
        state.complete_bet_or_raise_to(amt); return 'cbr'
    opts=[]
    if state.can_select_runout_count(): opts.append('runout')
    if state.can_show_or_muck_hole_cards(): opts.append('show')
    if opts:
        o=rng.choice(opts)
        if o=='runout':
            i=rng.choice(list(state.runout_count_selector_indices))
            state.select_runout_count(rng.choice([None,1,2,2,3][:2+cap_runouts(state)-1] if cap_runouts(state)>1 else [None,1]), i); return 'runout'
        state.show_or_muck_hole_cards(rng.choice([None,None,True,False]) if state.mode==Mode.CASH_GAME or not state.all_in_status else None); return 'show'
    if state.can_kill_hand(): state.kill_hand(rng.choice(list(state.hand_killing_indices))); return 'kill'
    if state.can_push_chips(): state.push_chips(); return 'push'
    if state.can_pull_chips(): state.pull_chips(rng.choice(list(state.chips_pulling_indices))); return 'pull'
    return None
def check(state, total, deck):
    chips=sum(state.stacks)+sum(state.bets)+sum(p.amount for p in state.pots)
    if state._pots is not None:
        # raked amounts gone
        pass
    assert chips==total, ('chips',chips,total)
    assert min(state.stacks)>=0 and min(state.bets)>=0
    cards=Counter(state.deck_cards)+Counter(state.burn_cards)+Counter(state.mucked_cards)
    for l in state.board_cards: cards+=Counter(l)
    for l in state.hole_cards: cards+=Counter(l)
    for l in state.discarded_cards: cards+=Counter(l)
    assert cards==Counter(deck), ('cards', cards-Counter(deck), Counter(deck)-cards)
def run(seed):
    rng=random.Random(seed)
    random.seed(seed)
    g=rng.choice(GL)
    n=rng.randint(2,MAXP.get(g,9))
    autos=tuple(a for a in ALL if rng.random()<rng.choice([0.2,0.5,0.8]))
    mode=rng.choice(list(Mode))
    stacks=[rng.choice([1,2,3,5,8,13,20,40,100,200]) for _ in range(n)]
    sbc = rng.choice([1,1,1,2]) if g in ('NT','PO','FO8','FT') else 1
    desc=(g,n,tuple(a.name for a in autos),mode.name,tuple(stacks),sbc)
    try:
        game=mk(g,autos,rng,n,mode=mode,starting_board_count=sbc)
        state=game(stacks,n)
    except Exception as e:
        return ('ctor',type(e).__name__,str(e)[:60],desc)
    k=0
    while state.status:
        k+=1
        if k>2000: return ('nonterm',desc)
        try:
            r=step(state,rng)
        except Exception as e:
            tb=traceback.extract_tb(e.__traceback__)[-1]
            return ('op',type(e).__name__,str(e)[:60],tb.lineno,desc)
        if r is None: return ('stuck',desc)
        try: check(state,sum(stacks),state.deck)
        except AssertionError as e: return ('inv',str(e)[:100],'',0,desc)
    if sum(state.payoffs)!=0: return ('inv','payoffsum','',0,desc)
    return ('ok',len(state.operations))
if __name__=='__main__':
    warnings.simplefilter('ignore')
    t=time.time(); res=collections.Counter(); ex={}
    N=int(sys.argv[1]); ops=0
    for seed in range(N):
        r=run(seed)
        key=tuple(map(str,r[:4])) if r[0] in('ctor','op','inv') else r[:1]
        res[key]+=1; ex.setdefault(key,(seed,r))
        if r[0]=='ok': ops+=r[1]
    dt=time.time()-t
    print(N/dt,'hands/s', ops/dt,'ops/s')
    for k,v in res.most_common(): print(v,k, ex[k])
