"""prototype R-SETTLE (layering + award) using engine hand objects for comparison; Fraction chips for exactness"""
import sys, random, warnings, collections, traceback
from fractions import Fraction
warnings.simplefilter('ignore')
import e4
from e4 import *
from pokerkit.state import *
import pokerkit.state as S
snap={}
orig=S.State._update
def wrapped(self, operation=None):
    if isinstance(operation, ChipsPushing) and 'c' not in snap:
        pass
    orig(self, operation)
S.State._update=wrapped
def settle(state, contrib, antes, live, hands_by):
    """contrib: total contributions (-payoffs) before pushes; antes: effective antes; returns award list (Fraction)"""
    n=len(contrib)
    ats=state.ante_trimming_status
    c=[Fraction(x) for x in contrib]
    dead=Fraction(0)
    if not ats:
        dead=sum(Fraction(a) for a in antes)
        c=[c[i]-antes[i] for i in range(n)]
    levels=sorted(set(x for x in c if x>0))
    layers=[]  # (amount, eligible)
    prev=Fraction(0)
    livec=[c[i] for i in range(n) if live[i]]
    top=max(livec) if livec else None
    for L in levels:
        amt=sum(min(c[i],L)-min(c[i],prev) for i in range(n))
        elig=tuple(i for i in range(n) if live[i] and c[i]>=L)
        if not elig: elig=tuple(i for i in range(n) if live[i] and c[i]==top)
        layers.append([amt,elig]); prev=L
    if dead:
        elig=tuple(i for i in range(n) if live[i])
        layers.insert(0,[dead,elig])
    # merge equal eligibility
    merged=[]
    for amt,elig in layers:
        if merged and merged[-1][1]==elig: merged[-1][0]+=amt
        else: merged.append([amt,elig])
    award=[Fraction(0)]*n
    B=state.board_count; T=state.hand_type_count
    if sum(live)==1:
        w=live.index(True)
        award[w]=sum(a for a,_ in merged); return award, merged
    for amt,elig in merged:
        for b in range(B):
            sub=amt/B
            types=[t for t in range(T) if any(hands_by(i,b,t) is not None for i in elig)]
            for t in types:
                ss=sub/len(types)
                hs={i:hands_by(i,b,t) for i in elig}
                best=max(h for h in hs.values() if h is not None)
                win=[i for i in elig if hs[i] is not None and hs[i]==best]
                for i in win: award[i]+=ss/len(win)
    return award, merged
def run(seed):
    rng=random.Random(seed); random.seed(seed)
    g=rng.choice(['NT','PO','FO8','F7S8','FR','NS','FB','N2L1D']); n=rng.randint(2,MAXP.get(g,7))
    autos=tuple(a for a in ALL if a not in (Automation.CHIPS_PUSHING,)); mode=rng.choice(list(Mode))
    stacks=[Fraction(rng.choice([1,2,3,5,8,13,20,40,100,200])) for _ in range(n)]
    sbc = rng.choice([1,1,2]) if g in ('NT','PO','FO8') else 1
    state=mk(g,autos,rng,n,mode=mode,starting_board_count=sbc,divmod=lambda a,b:(Fraction(a)/b,Fraction(0)))(stacks,n)
    pre=None
    while state.status:
        if state.can_push_chips() and pre is None:
            pre=dict(contrib=[-p for p in state.payoffs], live=list(state.statuses), antes=[state.get_effective_ante(i) for i in range(n)], stacks=list(state.stacks), bets=list(state.bets))
            hb={}
            for i in range(n):
                for b in range(state.board_count):
                    for t in range(state.hand_type_count):
                        hb[i,b,t]=state.get_hand(i,b,t) if state.statuses[i] else None
        if step(state,rng) is None: return ('stuck',)
    if pre is None: return ('nopush',)
    # lone survivor keeps own uncollected bet in front: contrib includes it; award includes it
    award,layers=settle(state,pre['contrib'],pre['antes'],pre['live'],lambda i,b,t:hb[i,b,t])
    exp=[pre['stacks'][i]+award[i] for i in range(n)]
    # engine: winner's own uncollected bet (lone survivor) is in pre bets, returned via pull
    if exp!=state.stacks:
        return ('diff', g, str(dict(exp=[str(x) for x in exp],got=[str(x) for x in state.stacks],contrib=[str(x) for x in pre['contrib']],live=pre['live'],antes=[str(a) for a in pre['antes']],ats=state.ante_trimming_status,layers=[(str(a),e) for a,e in layers],bets=[str(b) for b in pre['bets']]))[:700])
    return ('ok','side' if len(layers)>1 else 'single')
res=collections.Counter(); ex={}
for seed in range(int(sys.argv[1])):
    try: r=run(seed)
    except Exception as e: r=('harness',type(e).__name__,str(e)[:80]); traceback.print_exc(limit=2)
    res[r[:2]]+=1; ex.setdefault(r[:2],(seed,r))
for k,v in res.most_common(): print(v,k,ex[k])
