import sys, random, traceback, warnings
warnings.simplefilter('ignore')
import e4
from e4 import *
def trace(seed, tail=14):
    rng=random.Random(seed); random.seed(seed)
    g=rng.choice(GL); n=rng.randint(2,MAXP.get(g,9))
    autos=tuple(a for a in ALL if rng.random()<rng.choice([0.2,0.5,0.8])); mode=rng.choice(list(Mode))
    stacks=[rng.choice([1,2,3,5,8,13,20,40,100,200]) for _ in range(n)]
    sbc = rng.choice([1,1,1,2]) if g in ('NT','PO','FO8','FT') else 1
    print(g,n,[a.name for a in autos],mode,stacks,sbc)
    game=mk(g,autos,rng,n,mode=mode,starting_board_count=sbc); state=game(stacks,n)
    print('antes',state.antes,'blinds',state.blinds_or_straddles,'bringin',state.bring_in,'ats',state.ante_trimming_status)
    def dump():
        for op in state.operations[-tail:]: print('  ',op)
        print('statuses',state.statuses,'stacks',state.stacks,'bets',state.bets,'payoffs',state.payoffs,'street',state.street_index,'allin',state.all_in_status)
        print('boards',state.board_cards,'hole',state.hole_cards,'deck',len(state.deck_cards),'burn',state.burn_cards,'muck',len(state.mucked_cards))
        print('runout', state.runout_count, state.street_return_index, state.street_return_count, state.runout_count_selector_statuses)
        print('pending',state.card_burning_status,state.hole_dealing_statuses,state.board_dealing_counts,'actors',state.actor_indices,'showdown',state.showdown_indices)
    while state.status:
        try: r=step(state,rng)
        except Exception as e:
            traceback.print_exc(); dump(); return
        if r is None: print('STUCK'); dump(); return
    print('END'); dump()
for s in map(int,sys.argv[1:]): trace(s)
