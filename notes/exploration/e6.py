from pokerkit import *
s = NoLimitTexasHoldem.create_state(tuple(Automation), True, 0, (100,200), 200, (900, 20000, 800, 20000), 4)
print(s.actor_index)
s.complete_bet_or_raise_to(800)   # P2 all-in full raise 600
s.check_or_call()                 # P3 calls 800
s.complete_bet_or_raise_to(900)   # P0 all-in short +100
s.check_or_call()                 # P1 calls 900
print('actor', s.actor_index, 'can raise?', s.can_complete_bet_or_raise_to(), s.min_completion_betting_or_raising_to_amount, s.consecutive_all_in_completion_betting_or_raising_amounts, s.acted_player_indices)
