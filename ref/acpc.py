"""R-ACPC - independent renderer of the ACPC match-state dialogue and the Pluribus line from an operation log.

Written from the protocol convention the property states: betting string with f / c / r (fixed-limit) or
r<total chips the player has committed in the hand> (no-limit), '/' per dealt street, hole cards of the viewer
(other seats appear once they are shown), board cards per street; one server message before each betting action
and one at the end, one client message (the state the client saw, plus its action) after each action of the viewer.
"""
from __future__ import annotations

BET = ('Folding', 'CheckingOrCalling', 'CompletionBettingOrRaisingTo')


class Tracker:
    def __init__(self, n, no_limit):
        self.n = n
        self.no_limit = no_limit
        self.committed = [0] * n       # chips put in over the whole hand (forced bets included)
        self.bet = [0] * n
        self.betting = ''
        self.hole = [[] for _ in range(n)]
        self.shown = [False] * n
        self.board = ''
        self.board_count = 0

    def action_text(self, op):
        t = type(op).__name__
        if t == 'Folding':
            return 'f'
        if t == 'CheckingOrCalling':
            return 'c'
        if self.no_limit:
            i = op.player_index
            return 'r%s' % (self.committed[i] - self.bet[i] + op.amount)
        return 'r'

    def apply(self, op):
        t = type(op).__name__
        if t in ('AntePosting', 'BlindOrStraddlePosting', 'BringInPosting', 'CheckingOrCalling'):
            i = op.player_index
            self.committed[i] += op.amount
            self.bet[i] += op.amount
        elif t == 'CompletionBettingOrRaisingTo':
            i = op.player_index
            self.committed[i] += op.amount - self.bet[i]
            self.bet[i] = op.amount
        elif t == 'BetCollection':
            for i in range(self.n):
                self.committed[i] -= self.bet[i] - op.bets[i] if False else 0
            self.bet = [0] * self.n
        elif t == 'HoleDealing':
            self.hole[op.player_index] += [repr(c) for c in op.cards]
        elif t == 'HoleCardsShowingOrMucking':
            if op.hole_cards:
                self.hole[op.player_index] = [repr(c) for c in op.hole_cards]
                self.shown[op.player_index] = True
        elif t == 'BoardDealing':
            for c in op.cards:
                if self.board_count in (0, 3, 4):        # hold'em streets: flop (3), turn, river - one separator per street
                    self.betting += '/'
                    self.board += '/'
                self.board += repr(c)
                self.board_count += 1

    def cards_field(self, viewers):
        seats = []
        for i in range(self.n):
            seats.append(''.join(c for c in self.hole[i] if c != '??') if (i in viewers or self.shown[i]) else '')
        return '|'.join(seats) + self.board


def dialogue(ops, n, no_limit, position, hand_number, final_message):
    """Expected [(direction, text)] for a viewer seat. `final_message`: whether a closing server message is due
    (the hand is over, or somebody is to act)."""
    tr = Tracker(n, no_limit)
    out = []

    def state():
        return f'MATCHSTATE:{position}:{hand_number}:{tr.betting}:{tr.cards_field({position})}'
    for op in ops:
        t = type(op).__name__
        if t in BET:
            seen = state()
            out.append(('S->', seen + '\r\n'))
            a = tr.action_text(op)
            tr.apply(op)
            tr.betting += a
            if op.player_index == position:
                out.append(('<-C', f'{seen}:{a}\r\n'))
        else:
            tr.apply(op)
    if final_message:
        out.append(('S->', state() + '\r\n'))
    return out


def pluribus(ops, n, hand_number, payoffs, players=None):
    tr = Tracker(n, True)
    for op in ops:
        t = type(op).__name__
        if t in BET:
            a = tr.action_text(op)
            tr.apply(op)
            tr.betting += a
        else:
            tr.apply(op)
    names = players or [f'p{i + 1}' for i in range(n)]
    cards = '|'.join(''.join(c for c in tr.hole[i] if c != '??') for i in range(n)) + tr.board
    return f'STATE:{hand_number}:{tr.betting}:{cards}:' + '|'.join(str(p) for p in payoffs) + ':' + '|'.join(names)
