"""R-VAR - the twelve predefined variants written out by hand from their names, the documentation and the rules
of the games (NOT derived from pokerkit.games).  d = face-down hole card, u = face-up.

Each street: (burn first?, hole-card facings, board cards, draw round?, opening rule, bet size, raise cap)
bet size: 'small' / 'big' for fixed-limit games, 'min' for no-/pot-limit games.
"""
from __future__ import annotations

RANKS52 = '23456789TJQKA'
SUITS = 'cdhs'


def deck(ranks):
    return frozenset(r + s for r in ranks for s in SUITS)


D52 = deck(RANKS52)
D36 = deck('6789TJQKA')
D20 = deck('TJQKA')
d, u = False, True


def flop(hole, small, big, cap):
    return [(False, (d,) * hole, 0, False, 'POSITION', small, cap),
            (True, (), 3, False, 'POSITION', small, cap),
            (True, (), 1, False, 'POSITION', big, cap),
            (True, (), 1, False, 'POSITION', big, cap)]


def stud(first, later):
    return [(False, (d, d, u), 0, False, first, 'small', 4),
            (True, (u,), 0, False, later, 'small', 4),
            (True, (u,), 0, False, later, 'big', 4),
            (True, (u,), 0, False, later, 'big', 4),
            (True, (d,), 0, False, later, 'big', 4)]


def draw(hole, sizes, cap):
    out = [(False, (d,) * hole, 0, False, 'POSITION', sizes[0], cap)]
    for s in sizes[1:]:
        out.append((True, (), 0, True, 'POSITION', s, cap))
    return out


VAR = {
    'FT': dict(cls='FixedLimitTexasHoldem', phh='FT', deck=D52, hands=['StandardHighHand'], structure='FL',
               streets=flop(2, 'small', 'big', 4), forced='blinds'),
    'NT': dict(cls='NoLimitTexasHoldem', phh='NT', deck=D52, hands=['StandardHighHand'], structure='NL',
               streets=flop(2, 'min', 'min', None), forced='blinds'),
    'NS': dict(cls='NoLimitShortDeckHoldem', phh='NS', deck=D36, hands=['ShortDeckHoldemHand'], structure='NL',
               streets=flop(2, 'min', 'min', None), forced='blinds'),
    'NR': dict(cls='NoLimitRoyalHoldem', phh=None, deck=D20, hands=['StandardHighHand'], structure='NL',
               streets=flop(2, 'min', 'min', None), forced='blinds'),
    'PO': dict(cls='PotLimitOmahaHoldem', phh='PO', deck=D52, hands=['OmahaHoldemHand'], structure='PL',
               streets=flop(4, 'min', 'min', None), forced='blinds'),
    'FO8': dict(cls='FixedLimitOmahaHoldemHighLowSplitEightOrBetter', phh='FO/8', deck=D52,
                hands=['OmahaHoldemHand', 'OmahaEightOrBetterLowHand'], structure='FL',
                streets=flop(4, 'small', 'big', 4), forced='blinds'),
    'F7S': dict(cls='FixedLimitSevenCardStud', phh='F7S', deck=D52, hands=['StandardHighHand'], structure='FL',
                streets=stud('LOW_CARD', 'HIGH_HAND'), forced='bring_in'),
    'F7S8': dict(cls='FixedLimitSevenCardStudHighLowSplitEightOrBetter', phh='F7S/8', deck=D52,
                 hands=['StandardHighHand', 'EightOrBetterLowHand'], structure='FL',
                 streets=stud('LOW_CARD', 'HIGH_HAND'), forced='bring_in'),
    'FR': dict(cls='FixedLimitRazz', phh='FR', deck=D52, hands=['RegularLowHand'], structure='FL',
               streets=stud('HIGH_CARD', 'LOW_HAND'), forced='bring_in'),
    'N2L1D': dict(cls='NoLimitDeuceToSevenLowballSingleDraw', phh='N2L1D', deck=D52, hands=['StandardLowHand'],
                  structure='NL', streets=draw(5, ('min', 'min'), None), forced='blinds'),
    'F2L3D': dict(cls='FixedLimitDeuceToSevenLowballTripleDraw', phh='F2L3D', deck=D52, hands=['StandardLowHand'],
                  structure='FL', streets=draw(5, ('small', 'small', 'big', 'big'), 4), forced='blinds'),
    'FB': dict(cls='FixedLimitBadugi', phh='FB', deck=D52, hands=['BadugiHand'], structure='FL',
               streets=draw(4, ('small', 'small', 'big', 'big'), 4), forced='blinds'),
}
