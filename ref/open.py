"""R-OPEN - who opens a betting round, written from the property statement and the rules of poker.

Inputs are public observations only: the nominal blind/straddle layout, the street's opening rule,
who is live, and the players' up-cards.  It returns the *designated* opener seat; passing the
turn clockwise over players who cannot act is done by the betting model's queue.
"""
from __future__ import annotations
from collections import Counter

STD = '23456789TJQKA'
REG = 'A23456789TJQK'
SUITS = 'cdhs'


def rank_of(card):
    return card.rank.value if hasattr(card.rank, 'value') else str(card.rank)


def suit_of(card):
    return card.suit.value if hasattr(card.suit, 'value') else str(card.suit)


def position_opener(n, blinds, first_round, posted=None):
    """Button games.  `blinds[i]` is the nominal blind/straddle of PLAYER i (already mapped for heads-up);
    negative = a post by a late-seated player, which does not count.  `posted[i]` is what player i actually
    put in as a blind or straddle (a player whose chips were used up by the ante posts nothing); the round is
    opened by the seat after the last - i.e. largest, on ties the one posted last - blind or straddle.  Blinds are
    posted clockwise from the small blind: seats 0, 1, 2, ... with three or more players; heads-up the button
    (player 1) posts the small blind first and player 0 the big blind last, so the small blind/button acts first."""
    if not first_round:
        return 0                       # first seat after the button
    order = list(range(n)) if n != 2 else [1, 0]
    best = None
    for k, i in enumerate(order):
        b = blinds[i]
        amount = b if posted is None else posted[i]
        key = (amount if b > 0 else 0, k)
        if best is None or key >= best[0]:
            best = (key, i)
    if best[0][0] <= 0:
        return 0                       # no blind or straddle at all: first seat after the button
    return (best[1] + 1) % n


def exposed_key(cards, order):
    """(category, kickers) of 1-4 exposed cards: high card < pair < two pair < trips < quads; no straights/flushes."""
    ranks = [order.index(rank_of(c)) for c in cards]
    cnt = Counter(ranks)
    groups = sorted(cnt.items(), key=lambda kv: (-kv[1], -kv[0]))
    shape = tuple(sorted(cnt.values(), reverse=True))
    cat = {(1,): 0, (1, 1): 0, (1, 1, 1): 0, (1, 1, 1, 1): 0, (2,): 1, (2, 1): 1, (2, 1, 1): 1, (2, 2): 2,
           (3,): 3, (3, 1): 3, (4,): 4}[shape]
    return (cat, tuple(r for r, c in groups for _ in range(c)))


def stud_opener(opening, ups):
    """`ups`: {player: [up-cards]} of live players.  Returns the designated opener or None (UNSPECIFIED:
    a player without exposed cards, or an unknown up-card, makes the rule undefined)."""
    if not ups or any(not v for v in ups.values()) or any(len(v) > 4 for v in ups.values()):
        return None
    if any(getattr(c, 'unknown_status', False) for v in ups.values() for c in v):
        return None                    # an unknown ("??") up-card: nothing can be said about the opener
    name = str(getattr(opening, 'name', opening))
    if name == 'LOW_CARD':        # lowest up-card opens, ace high, suits c<d<h<s break ties
        return min(ups, key=lambda i: (min((STD.index(rank_of(c)), SUITS.index(suit_of(c))) for c in ups[i]), i))
    if name == 'HIGH_CARD':       # razz: highest up-card, ace low
        return min(ups, key=lambda i: (tuple(-x for x in max((REG.index(rank_of(c)), SUITS.index(suit_of(c)))
                                                               for c in ups[i])), i))
    counts = {len(v) for v in ups.values()}
    if name == 'HIGH_HAND':       # best exposed hand, ties to the earliest position
        if len(counts) > 1:
            return None
        def k(i):
            cat, kick = exposed_key(ups[i], STD)
            return (-cat, tuple(-x for x in kick), i)
        return min(ups, key=k)
    if name == 'LOW_HAND':        # razz: lowest exposed hand, ace low
        if len(counts) > 1:
            return None
        def k2(i):
            cat, kick = exposed_key(ups[i], REG)
            return (cat, kick, i)
        return min(ups, key=k2)
    raise ValueError(opening)
