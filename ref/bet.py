"""R-BET - the betting round, rebuilt from the operation log alone.

Written from the property statement (C03) and the rules; it never reads the engine's bookkeeping
(actor_indices, acted_player_indices, completion_* counters, ...).  Inputs: the game parameters
(structure, street minimums and caps, bring-in, nominal blinds, mode), the logged operations, and -
for stud openings - the players' up-cards at the start of the round.

Three-valued answers: methods return concrete values where the statement fixes them; `None` from
`designated_opener` means UNSPECIFIED (the monitor then adopts the engine's opener and says so).
"""
from __future__ import annotations

from . import open as ropen

DEAL = ('CardBurning', 'HoleDealing', 'BoardDealing', 'StandingPatOrDiscarding')
BET = ('Folding', 'CheckingOrCalling', 'BringInPosting', 'CompletionBettingOrRaisingTo')


class ModelError(Exception):
    """The log contradicts the model (the monitor turns this into a violation)."""

    def __init__(self, rule, message):
        super().__init__(message)
        self.rule = rule


class RBet:
    def __init__(self, n, starting_stacks, structure, mode_tournament, streets, bring_in, blinds_by_player):
        """streets: list of (opening name, street minimum, cap or None); structure: 'NL' | 'PL' | 'FL'."""
        self.n = n
        self.stack = list(starting_stacks)
        self.bet = [0] * n
        self.live = [True] * n
        self.pot = 0
        self.structure = structure
        self.tournament = mode_tournament
        self.streets = streets
        self.bring_in = bring_in
        self.blinds = blinds_by_player
        self.posted = [0] * n
        self.street = -1
        self.last_class = 'start'
        self.pending_start = False
        self.in_round = False
        self.queue = []
        self.rounds = 0
        self.opener_unspecified = False
        self.probes = {}

    # ---- helpers -------------------------------------------------------------------------
    def total(self, i):
        return self.stack[i] + self.bet[i]

    def cur(self):
        return max(self.bet)

    def eff(self, i):
        others = [self.total(j) for j in range(self.n) if j != i and self.live[j]]
        if not others:
            return 0
        return min(self.stack[i], max(0, max(others) - self.bet[i]))

    def probe(self, name):
        self.probes[name] = self.probes.get(name, 0) + 1

    # ---- round set-up ----------------------------------------------------------------------
    def designated_opener(self, ups):
        opening = self.streets[self.street][0]
        if opening == 'POSITION':
            return ropen.position_opener(self.n, self.blinds, self.rounds == 0 and self.street == 0, self.posted)
        return ropen.stud_opener(opening, {i: ups[i] for i in range(self.n) if self.live[i]})

    def start_round(self, ups, engine_opener_hint=None):
        """Called when the dealing of a street is complete."""
        self.pending_start = False
        candidates = [i for i in range(self.n) if self.live[i] and self.stack[i] > 0 and self.eff(i) > 0]
        self.opener_unspecified = False
        if len(candidates) >= 2:
            opener = self.designated_opener(ups)       # the order only matters when two or more players can act
            self.opener_unspecified = opener is None
            if opener is None:
                opener = engine_opener_hint if engine_opener_hint is not None else 0
        else:
            opener = 0
        _, self.street_min, self.cap = self.streets[self.street]
        self.largest = 0
        self.count = 0
        self.acted = set()
        self.short = []
        self.bring_in_pending = self.street == 0 and self.rounds == 0 and self.bring_in > 0
        self.completion_pending = self.bring_in_pending
        order = [(opener + k) % self.n for k in range(self.n)]
        self.queue = [i for i in order if self.live[i] and self.stack[i] > 0 and self.eff(i) > 0]
        if len(self.queue) == 1 and self.bet[self.queue[0]] >= self.cur():
            self.queue = []
            self.probe('lone_actor_skipped')
        if sum(self.live) <= 1:
            self.queue = []
        self.in_round = bool(self.queue)
        self.rounds += 1
        self.designated = opener

    def end_check(self):
        if not self.queue or sum(self.live) <= 1:
            self.queue = []
            self.in_round = False

    # ---- what the rules allow for the player to act ---------------------------------------------
    def actor(self):
        return self.queue[0] if self.queue else None

    def fold_status(self):
        """'yes' | 'no' | 'warn' (cash game: allowed with a warning, refused when warnings are errors)."""
        i = self.actor()
        if self.bring_in_pending:
            return 'no'
        if self.bet[i] < self.cur():
            return 'yes'
        return 'no' if self.tournament else 'warn'

    def call_allowed(self):
        return not self.bring_in_pending

    def call_amount(self):
        i = self.actor()
        return min(self.stack[i], self.cur() - self.bet[i])

    def bring_in_amount(self):
        i = self.actor()
        return min(self.stack[i], self.bring_in)

    def raise_refusal(self):
        """None if a bet/raise is admissible for the actor, else the name of the rule that forbids it."""
        i = self.actor()
        cur = self.cur()
        if self.cap is not None and self.count >= self.cap:
            return 'cap'
        if self.short and sum(self.short) < self.largest and i in self.acted:
            return 'short_all_in'
        if self.stack[i] <= cur - self.bet[i]:
            return 'covered'
        if not any(j != i and self.live[j] and self.total(j) > cur for j in range(self.n)):
            return 'nobody_can_call'
        return None

    def raise_interval(self):
        """(min_to, max_to, pot_to) for the actor, assuming raise_refusal() is None."""
        i = self.actor()
        cur = self.cur()
        amount = max(self.largest, self.street_min)
        if not self.completion_pending:
            amount += cur
        lo = min(self.eff(i) + self.bet[i], amount)
        pot_to = min(self.total(i), max(lo, 2 * cur - self.bet[i] + self.pot + sum(self.bet)))
        if self.structure == 'NL':
            hi = self.total(i)
        elif self.structure == 'PL':
            hi = pot_to
        else:
            hi = lo
        return lo, hi, pot_to

    # ---- consuming the log -------------------------------------------------------------------------
    def on(self, op, ups_provider=None, engine_opener_hint=None):
        t = type(op).__name__
        if t in DEAL:
            if self.last_class != 'deal':
                if self.in_round:
                    raise ModelError('round_end', f'dealing resumed while {self.queue} still had to act')
                self.street = self.street + 1 if self.street + 1 < len(self.streets) else self.street
                self.pending_start = True
            self.last_class = 'deal'
            return
        if self.pending_start and self.last_class == 'deal':
            # the first non-dealing operation after a dealing phase: the round (if any) starts now
            self.start_round(ups_provider() if ups_provider else None, engine_opener_hint)
        if t in BET:
            self.bet_op(op, t)
            self.last_class = 'bet'
            return
        if self.in_round:
            raise ModelError('round_end', f'{t} logged while players {self.queue} still had to respond to the last bet')
        self.last_class = 'other'
        if t in ('AntePosting', 'BlindOrStraddlePosting'):
            i = op.player_index
            if t == 'BlindOrStraddlePosting':
                self.posted[i] += op.amount
            self.stack[i] -= op.amount
            self.bet[i] += op.amount
        elif t == 'BetCollection':
            survivor = self.live.index(True) if sum(self.live) == 1 else None
            for i in range(self.n):
                if i == survivor:
                    continue
                self.stack[i] += self.bet[i] - op.bets[i]
                self.pot += op.bets[i]
                self.bet[i] = 0
        elif t == 'HandKilling' or (t == 'HoleCardsShowingOrMucking' and not op.hole_cards):
            self.live[op.player_index] = False
        elif t == 'ChipsPushing':
            for i in range(self.n):
                self.bet[i] += op.amounts[i]
                self.pot -= op.amounts[i]
        elif t == 'ChipsPulling':
            i = op.player_index
            self.stack[i] += op.amount
            self.bet[i] = 0

    def bet_op(self, op, t):
        if not self.in_round:
            raise ModelError('no_round', f'{t} by player {op.player_index} logged although nobody could act')
        i = self.queue[0]
        if op.player_index != i:
            raise ModelError('turn', f'{t} by player {op.player_index}, but it is player {i}\'s turn (queue {self.queue})')
        if t == 'Folding':
            fs = self.fold_status()
            if fs == 'no':
                raise ModelError('fold', f'player {i} folded although folding is not allowed '
                                 f'({"bring-in pending" if self.bring_in_pending else "not facing a bet in a tournament"})')
            self.queue.pop(0)
            self.acted.add(i)
            self.live[i] = False
            if fs == 'warn':
                self.probe('unreasonable_fold')
        elif t == 'CheckingOrCalling':
            if self.bring_in_pending:
                raise ModelError('bring_in', f'player {i} checked/called while the bring-in had to be posted or completed')
            want = self.call_amount()
            if op.amount != want:
                raise ModelError('call_amount', f'player {i} called {op.amount}, the rules say min(stack, to match) = {want}')
            self.queue.pop(0)
            self.acted.add(i)
            self.stack[i] -= op.amount
            self.bet[i] += op.amount
        elif t == 'BringInPosting':
            if not self.bring_in_pending:
                raise ModelError('bring_in', f'player {i} posted a bring-in that was not due')
            want = self.bring_in_amount()
            if op.amount != want:
                raise ModelError('bring_in', f'bring-in of {op.amount}, expected {want}')
            self.queue.pop(0)
            self.acted.add(i)
            self.stack[i] -= op.amount
            self.bet[i] += op.amount
            self.bring_in_pending = False
        else:
            why = self.raise_refusal()
            if why is not None:
                raise ModelError('raise_' + why, f'player {i} bet/raised to {op.amount} although the rules forbid it ({why})')
            lo, hi, _ = self.raise_interval()
            if not lo <= op.amount <= hi:
                raise ModelError('raise_amount', f'player {i} bet/raised to {op.amount}, allowed interval [{lo}, {hi}]')
            cur = self.cur()
            r = op.amount - cur
            full = r >= self.largest
            self.queue.pop(0)
            self.stack[i] -= op.amount - self.bet[i]
            self.bet[i] = op.amount
            self.bring_in_pending = False
            self.completion_pending = False
            self.queue = [j for j in ((i + k) % self.n for k in range(1, self.n)) if self.live[j] and self.stack[j] > 0]
            if full:
                self.acted = {i}
            else:
                self.acted.add(i)
                self.probe('short_all_in_raise')
            self.largest = max(self.largest, r)
            self.count += 1
            if self.stack[i] > 0 or full:
                self.short = []
            else:
                self.short.append(r)
        self.end_check()
