"""R-EVAL - independent hand evaluation by straight rank-tuple rules (no lookup tables, no prime products).

`best_key(hand_type_name, hole, board)` returns a key such that a LARGER key always means a BETTER hand for
that hand type (low types are already inverted), or None exactly when no legal hand of that type exists.
Cards are any objects with `.rank` and `.suit` whose str()/value is the usual one-letter code.

Conventions (the trusted base of C02/C12-style oracles):
  * standard high: straight flush > quads > full house > flush > straight > trips > two pair > pair > high card;
    ace high, A-2-3-4-5 is the lowest straight;
  * deuce-to-seven low ("standard low"): the exact reversal of the standard high order (ace high);
  * short-deck: flush beats full house, A-6-7-8-9 is the lowest straight;
  * eight-or-better low: five distinct ranks all <= 8 with ace low, straights/flushes ignored, compared from the
    highest card down, lower is better;
  * regular (ace-to-five, razz) low: ace low, no straights or flushes, pairs allowed (high card < pair < two pair <
    trips < full house < quads), lower is better;
  * badugi: distinct suits and ranks, more cards first, then lower is better (ace low; ace high in the "standard" form);
  * composition: any five cards; Omaha exactly two hole and three board cards; Greek both hole cards and three board
    cards; badugi the best valid subset.
"""
from __future__ import annotations
from collections import Counter
from itertools import combinations

STD = '23456789TJQKA'
REG = 'A23456789TJQK'
SHORT = '6789TJQKA'
KUHN = 'JQK'


def rk(card):
    r = card.rank
    return getattr(r, 'value', str(r))


def su(card):
    s = card.suit
    return getattr(s, 'value', str(s))


def known(cards):
    return [c for c in cards if c and rk(c) != '?']


def _groups(idx):
    cnt = Counter(idx)
    return sorted(cnt.items(), key=lambda kv: (-kv[1], -kv[0]))


def high_key(cards, order=STD, flush_over_full=False):
    """Key of exactly five cards under high rules (larger = better)."""
    idx = sorted((order.index(rk(c)) for c in cards), reverse=True)
    flush = len({su(c) for c in cards}) == 1
    groups = _groups(idx)
    shape = tuple(c for _, c in groups)
    ranks = tuple(r for r, _ in groups)
    straight_top = None
    if shape == (1, 1, 1, 1, 1):
        if idx[0] - idx[4] == 4:
            straight_top = idx[0]
        elif idx == [len(order) - 1, 3, 2, 1, 0]:      # ace plays low: the wheel of this deck
            straight_top = 3
    full, flu = (6, 5) if not flush_over_full else (5, 6)
    if straight_top is not None and flush:
        return (8, straight_top)
    if shape == (4, 1):
        return (7,) + ranks
    if shape == (3, 2):
        return (full,) + ranks
    if flush:
        return (flu,) + tuple(idx)
    if straight_top is not None:
        return (4, straight_top)
    if shape == (3, 1, 1):
        return (3,) + ranks
    if shape == (2, 2, 1):
        return (2,) + ranks
    if shape == (2, 1, 1, 1):
        return (1,) + ranks
    return (0,) + tuple(idx)


def neg(key):
    return tuple(-x for x in key)


def regular_low_key(cards):
    """Ace-to-five with pairs allowed, no straights/flushes; larger key = better (i.e. lower hand)."""
    idx = sorted((REG.index(rk(c)) for c in cards), reverse=True)
    groups = _groups(idx)
    shape = tuple(c for _, c in groups)
    ranks = tuple(r for r, _ in groups)
    cat = {(1, 1, 1, 1, 1): 0, (2, 1, 1, 1): 1, (2, 2, 1): 2, (3, 1, 1): 3, (3, 2): 4, (4, 1): 5}[shape]
    return neg((cat,) + ranks)


def eight_low_key(cards):
    idx = sorted((REG.index(rk(c)) for c in cards), reverse=True)
    if len(set(idx)) != 5 or idx[0] > REG.index('8'):
        return None
    return neg(tuple(idx))


def badugi_key(cards, order=REG):
    if len({su(c) for c in cards}) != len(cards) or len({rk(c) for c in cards}) != len(cards):
        return None
    idx = sorted((order.index(rk(c)) for c in cards), reverse=True)
    return (len(cards),) + neg(tuple(idx))


def _best(keys):
    keys = [k for k in keys if k is not None]
    return max(keys) if keys else None


def best_key(type_name, hole, board=()):
    hole = known(hole)
    board = known(board)
    allc = hole + board
    t = type_name
    if t == 'StandardHighHand':
        return _best(high_key(c) for c in combinations(allc, 5))
    if t == 'StandardLowHand':
        return _best(neg(high_key(c)) for c in combinations(allc, 5))
    if t == 'ShortDeckHoldemHand':
        if any(rk(c) not in SHORT for c in allc):
            return None
        return _best(high_key(c, SHORT, True) for c in combinations(allc, 5))
    if t == 'EightOrBetterLowHand':
        return _best(eight_low_key(c) for c in combinations(allc, 5))
    if t == 'RegularLowHand':
        return _best(regular_low_key(c) for c in combinations(allc, 5))
    if t == 'GreekHoldemHand':
        return _best(high_key(c) for b in combinations(board, 3) for c in combinations(tuple(hole) + b, 5))
    if t == 'OmahaHoldemHand':
        return _best(high_key(h + b) for h in combinations(hole, 2) for b in combinations(board, 3))
    if t == 'OmahaEightOrBetterLowHand':
        return _best(eight_low_key(h + b) for h in combinations(hole, 2) for b in combinations(board, 3))
    if t in ('BadugiHand', 'StandardBadugiHand'):
        order = REG if t == 'BadugiHand' else STD
        for k in range(4, 0, -1):
            b = _best(badugi_key(c, order) for c in combinations(allc, k))
            if b is not None:
                return b
        return None
    if t == 'KuhnPokerHand':
        if len(allc) != 1 or rk(allc[0]) not in KUHN:
            return None
        return (KUHN.index(rk(allc[0])),)
    raise KeyError(type_name)
