"""R-SETTLE - who is owed what when a hand ends, from contributions, live set, shown cards and boards.

Exact rational arithmetic.  Pot layers are built by contribution level; chips of players who are out of the hand
above every remaining player's level join the highest layer that still has an eligible player; antes that are not
"trimmed" are dead money that every remaining player can win.  Each layer is split evenly over the boards, then
over the hand types for which SOME ELIGIBLE PLAYER OF THAT LAYER has a hand, then over the holders of the best
hand.  How odd chips fall across boards and hand types is UNSPECIFIED; within one push the statement fixes it
(equal shares, odd chips to the earliest position).
"""
from __future__ import annotations
from fractions import Fraction

from .evalhand import best_key


def layers_of(contrib, antes, live, ante_trimming):
    """contrib[i]: chips player i has in the pot (antes included); antes[i]: his ante part.
    Returns [(amount, eligible tuple)] with equal neighbours merged, lowest layer first."""
    n = len(contrib)
    c = [Fraction(x) for x in contrib]
    dead = Fraction(0)
    if not ante_trimming:
        dead = sum(Fraction(a) for a in antes)
        c = [c[i] - Fraction(antes[i]) for i in range(n)]
    live_levels = [c[i] for i in range(n) if live[i]]
    top = max(live_levels) if live_levels else None
    out = []
    prev = Fraction(0)
    if dead:
        out.append([dead, tuple(i for i in range(n) if live[i])])
    for level in sorted({x for x in c if x > 0}):
        amount = sum(min(c[i], level) - min(c[i], prev) for i in range(n))
        elig = tuple(i for i in range(n) if live[i] and c[i] >= level)
        if not elig:
            elig = tuple(i for i in range(n) if live[i] and c[i] == top)      # dead money above every live level
        out.append([amount, elig])
        prev = level
    merged = []
    for amount, elig in out:
        if merged and merged[-1][1] == elig:
            merged[-1][0] += amount
        elif amount:
            merged.append([amount, elig])
    return [(a, e) for a, e in merged]


def hand_keys(type_names, shown, boards, players):
    """keys[(i, b, t)] = R-EVAL key of player i on board b for hand type t (None = no hand)."""
    keys = {}
    for i in players:
        for b, board in enumerate(boards):
            for t, name in enumerate(type_names):
                keys[i, b, t] = best_key(name, shown[i], board)
    return keys


def winners(keys, elig, b, t):
    have = [i for i in elig if keys[i, b, t] is not None]
    if not have:
        return []
    best = max(keys[i, b, t] for i in have)
    return [i for i in have if keys[i, b, t] == best]


def types_in_play(keys, elig, b, n_types):
    return [t for t in range(n_types) if any(keys[i, b, t] is not None for i in elig)]


def settle(layers, live, type_names, shown, boards):
    """Exact award per player."""
    n = len(live)
    award = [Fraction(0)] * n
    if sum(live) == 0:
        return award
    if sum(live) == 1:
        award[live.index(True)] = sum(a for a, _ in layers)
        return award
    players = [i for i in range(n) if live[i]]
    keys = hand_keys(type_names, shown, boards, players)
    nb = len(boards)
    for amount, elig in layers:
        for b in range(nb):
            sub = Fraction(amount) / nb
            types = types_in_play(keys, elig, b, len(type_names))
            for t in types:
                w = winners(keys, elig, b, t)
                for i in w:
                    award[i] += sub / len(types) / len(w)
    return award
