"""R-DEAL - what each street must deal, derived from the street definitions and the log only.

The model tracks, per dealing phase, the obligations towards every player still in the hand and every
board: a burn first iff prescribed; the prescribed hole cards with the prescribed facing; the prescribed
board cards per board; in a draw round one stand-pat-or-discard per player and replacements equal in
number and facing to the discards; the stud fallback to shared board cards when the cards not in play
cannot cover the street.  Several run-outs (cash games): the agreed count r is computed from the logged
RunoutCountSelection records alone (all expressed preferences equal -> that count, otherwise one), and the streets
after the one on which the selection was made are then prescribed r times in a row.
"""
from __future__ import annotations
from collections import Counter

DEAL = ('CardBurning', 'HoleDealing', 'BoardDealing', 'StandingPatOrDiscarding')


class DealError(Exception):
    def __init__(self, rule, message):
        super().__init__(message)
        self.rule = rule


class RDeal:
    def __init__(self, n, streets, board_count, deck_size):
        """streets: list of (burn, hole facings tuple, board count, draw)"""
        self.n = n
        self.streets = streets
        self.boards = board_count
        self.deck_size = deck_size
        self.live = [True] * n
        self.hands = [[] for _ in range(n)]        # list of (card, facing)
        self.board_cards = 0
        self.street = -1
        self.in_phase = False
        self.fallbacks = 0
        self.phases = 0
        self.selections = []           # run-out preferences in log order (None = no preference)
        self.return_street = None
        self.returns_left = None
        self.runouts = 1

    def in_play(self):
        return sum(len(h) for h in self.hands) + self.board_cards

    def begin(self):
        self.street += 1
        if self.street >= len(self.streets):
            if self.returns_left is None:
                prefs = {c for c in self.selections if c is not None}
                self.runouts = prefs.pop() if len(prefs) == 1 else 1
                self.returns_left = self.runouts - 1 if self.return_street is not None else 0
            if self.returns_left <= 0:
                raise DealError('street', 'a dealing phase began after the last street'
                                + (f' of the last of {self.runouts} run-out(s)' if self.selections else ''))
            self.returns_left -= 1
            self.street = self.return_street
        burn, facings, board, draw = self.streets[self.street]
        self.in_phase = True
        self.phases += 1
        self.burn_pending = burn
        self.burnt = False
        self.dealt_any = False
        self.pend_hole = [list(facings) if self.live[i] else [] for i in range(self.n)]
        self.pend_board = [board] * self.boards
        self.pend_draw = [bool(draw) and self.live[i] for i in range(self.n)]
        self.fallback = False
        need = sum(len(p) for p in self.pend_hole)
        available = self.deck_size - self.in_play()
        if need > available:
            self.fallback = True
            self.fallbacks += 1
            self.fallback_cards = getattr(self, 'fallback_cards', 0) + len(facings)      # per board
            for b in range(self.boards):
                self.pend_board[b] += len(facings)
            self.pend_hole = [[] for _ in range(self.n)]

    def complete(self):
        return not (self.burn_pending or any(self.pend_hole) or any(self.pend_board) or any(self.pend_draw))

    def default_dealee(self):
        burn, facings, board, draw = self.streets[self.street]
        if facings:
            return max(range(self.n), key=lambda i: (len(self.pend_hole[i]), -i))
        return next(i for i in range(self.n) if self.pend_hole[i])

    def on(self, op, default_index=True):
        t = type(op).__name__
        if t in ('Folding', 'HandKilling') or (t == 'HoleCardsShowingOrMucking' and not op.hole_cards):
            self.live[op.player_index] = False
            self.hands[op.player_index] = []
        if t not in DEAL:
            if self.in_phase:
                if not self.complete():
                    raise DealError('incomplete', f'{t} logged before the dealing of street {self.street} was complete: '
                                    f'burn pending {self.burn_pending}, hole cards pending '
                                    f'{[len(p) for p in self.pend_hole]}, board cards pending {self.pend_board}, '
                                    f'draws pending {self.pend_draw}')
                self.in_phase = False
            if t == 'RunoutCountSelection':
                if self.returns_left is not None:
                    raise DealError('runout', 'a run-out count was selected after the run-outs had begun')
                self.selections.append(op.runout_count)
                self.return_street = self.street + 1
            if t == 'HoleCardsShowingOrMucking' and op.hole_cards:
                i = op.player_index
                self.hands[i] = [(c, True if c else f) for c, (_, f) in zip(op.hole_cards, self.hands[i])] \
                    if len(op.hole_cards) == len(self.hands[i]) else [(c, True) for c in op.hole_cards]
            return
        if not self.in_phase or self.complete():
            self.begin()            # also: consecutive streets of an all-in run-out, with nothing logged in between
        if t == 'CardBurning':
            if not self.burn_pending:
                raise DealError('burn', f'a card was burnt on street {self.street} although '
                                f'{"one was already burnt" if self.burnt else "no burn is prescribed"}')
            if any(self.pend_draw):
                raise DealError('burn', 'a card was burnt before every player had stood pat or discarded')
            self.burn_pending = False
            self.burnt = True
        elif t == 'StandingPatOrDiscarding':
            i = op.player_index
            if not self.pend_draw[i]:
                raise DealError('draw', f'player {i} stood pat/discarded but has no draw pending on street {self.street}')
            held = Counter(c for c, _ in self.hands[i])
            if Counter(op.cards) - held:
                raise DealError('draw', f'player {i} discarded {list(op.cards)} but holds {[c for c, _ in self.hands[i]]}')
            self.pend_draw[i] = False
            facings = []
            for c in op.cards:
                k = next(j for j, (cc, _) in enumerate(self.hands[i]) if cc == c)
                facings.append(self.hands[i][k][1])
                self.hands[i].pop(k)
            self.pend_hole[i] = list(self.pend_hole[i]) + facings      # (cards the street itself prescribes stay owed)
        elif t == 'HoleDealing':
            i = op.player_index
            if self.burn_pending:
                raise DealError('burn', f'hole cards were dealt on street {self.street} before the prescribed burn')
            if not self.live[i]:
                raise DealError('folded', f'player {i} is out of the hand but was dealt {list(op.cards)}')
            if any(self.pend_draw):
                raise DealError('draw', 'hole cards were dealt before every player had stood pat or discarded')
            k = len(op.cards)
            if k < 1 or k > len(self.pend_hole[i]):
                raise DealError('count', f'player {i} was dealt {k} card(s) on street {self.street}, '
                                f'{len(self.pend_hole[i])} still prescribed'
                                + (' (the street falls back to shared board cards)' if self.fallback else ''))
            want = tuple(self.pend_hole[i][:k])
            if tuple(op.statuses) != want:
                raise DealError('facing', f'player {i} was dealt cards with facing {tuple(op.statuses)}, prescribed {want}')
            if default_index:
                d = self.default_dealee()
                if d != i:
                    raise DealError('order', f'default dealee is player {i}, position order says player {d} '
                                    f'(pending {[len(p) for p in self.pend_hole]})')
            del self.pend_hole[i][:k]
            self.hands[i] += list(zip(op.cards, op.statuses))
        elif t == 'BoardDealing':
            if self.burn_pending:
                raise DealError('burn', f'board cards were dealt on street {self.street} before the prescribed burn')
            if any(self.pend_draw):
                raise DealError('draw', 'board cards were dealt before every player had stood pat or discarded')
            b = next((j for j, c in enumerate(self.pend_board) if c), None)
            if b is None:
                raise DealError('board', f'board cards {list(op.cards)} dealt on street {self.street} but none are prescribed'
                                + ('' if not any(self.pend_hole) else ' (the deck covers the hole cards: no fallback)'))
            if not 1 <= len(op.cards) <= self.pend_board[b]:
                raise DealError('board', f'{len(op.cards)} board card(s) dealt, {self.pend_board[b]} prescribed for the board')
            self.pend_board[b] -= len(op.cards)
            self.board_cards += len(op.cards)
