"""Regenerates MANIFEST.json from the check modules that exist (run by hand; the result is committed)."""
import importlib
import json
import os
import subprocess
import sys

HERE = os.path.dirname(os.path.abspath(__file__))
sys.path.insert(0, HERE)
os.environ.setdefault('PYTHONHASHSEED', '0')

NA = {
    'C04': 'pure function of its input (total order over finite card sets): no schedule, randomness, fault or history for a simulator to vary; deciding it is exhaustive enumeration against an independent evaluator, a different technique (DESIGN.md section 6)',
    'C05': 'pure function of (hole cards, board): a maximum over card combinations with no schedule, fault or history dimension (DESIGN.md section 6)',
    'C19': 'pure normalisation/validation of constructor arguments and card text: equivalence across spellings for all values is an input-space quantifier only (DESIGN.md section 6)',
    'C20': 'pure text-to-object import over six regex grammars; nothing depends on a schedule, fault or crash point, and an oracle would need six unverifiable log renderers (DESIGN.md section 6)',
}
PENDING = 'check not built yet in this round (planned, see DESIGN.md section 5); not claimed until its command exists'

TECH = 'deterministic simulation: seeded scheduler over player/dealer/adversary agents driving the real State, per-operation monitors via a State._update wrap, seeded search over schedules and faults, minimised replay files'

props = [json.loads(l) for l in open(os.path.join(HERE, 'properties.jsonl'))]
checks = []
na = []
for p in props:
    pid = p['id']
    path = os.path.join(HERE, 'checks', pid.lower() + '.py')
    if pid in NA:
        na.append({'property_id': pid, 'reason': NA[pid]})
        continue
    if not os.path.exists(path):
        na.append({'property_id': pid, 'reason': PENDING})
        continue
    mod = importlib.import_module('checks.' + pid.lower())
    checks.append({
        'property_id': pid,
        'quick_cmd': f'./check {pid} --tier quick',
        'thorough_cmd': f'./check {pid} --tier thorough',
        'evidence_file': f'/verif/evidence/{pid}.json',
        'replay_cmd_template': f'./check {pid} --replay {{path}}',
        'engine': 'sim',
        'level_claimed': {'category': mod.LEVEL, 'text': getattr(mod, 'LEVEL_TEXT', mod.RULE), 'design_ref': f'DESIGN.md section 5, {pid}'},
        'level_note': '; '.join(mod.ASSUMPTIONS),
        'technique': getattr(mod, 'TECHNIQUE', TECH),
    })
hooks_commits = []
man = {
    'version': 1,
    'setup_cmd': '/venv/bin/python -m compileall -q sim ref checks run_check.py',
    'hooks': {
        'guard': 'POKERKIT_VERIF',
        'enable': 'no source hook exists: observation is a run-time wrap of State._update and the randomness seam is random.shuffle replaced before pokerkit is imported; checks import pokerkit from /repo (POKERKIT_ROOT overrides)',
        'baseline_off_cmd': 'cd /repo && /venv/bin/python -m pytest -ra -q -p no:cacheprovider --timeout=900 --continue-on-collection-errors',
        'source_commits': hooks_commits,
        'add_only': True,
    },
    'engines': [{'name': 'sim', 'path': '/verif/sim', 'serves_properties': [c['property_id'] for c in checks],
                 'kind_free_text': 'deterministic simulation with fault injection: choice-sequence kernel (one integer decides everything), keyed shuffle seam, agents + seeded scheduler, per-operation monitors, reference models in /verif/ref, minimiser and replay'}],
    'checks': checks,
    'not_applicable': na,
    'notes': 'Exit codes: 0 held, 1 VIOLATION line printed, 2 HARNESS-ERROR. VERIF_SEED selects the batch. known_findings.json lists fixed: and open findings; open ones are printed as KNOWN-FINDING lines. C18 is claimed for its equity clauses only (range notation and ICM are pure functions; see DESIGN.md section 6).',
}
json.dump(man, open(os.path.join(HERE, 'MANIFEST.json'), 'w'), indent=1)
print('checks:', [c['property_id'] for c in checks])
print('not applicable:', [x['property_id'] for x in na])
