"""Entry point used by ./check: imports the check module as part of one package tree and runs the driver."""
import importlib
import os
import sys

HERE = os.path.dirname(os.path.abspath(__file__))
if HERE not in sys.path:
    sys.path.insert(0, HERE)


def main():
    if os.environ.get('PYTHONHASHSEED') is None:
        env = dict(os.environ, PYTHONHASHSEED='0')
        os.execve(sys.executable, [sys.executable, os.path.abspath(__file__)] + sys.argv[1:], env)
    modname = sys.argv[1].lower()
    argv = sys.argv[2:]
    from sim import driver
    mod = importlib.import_module('checks.' + modname)
    sys.exit(driver.main(mod, argv))


if __name__ == '__main__':
    main()
