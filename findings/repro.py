"""Hand-written failing inputs for the defects F1..F10 of DESIGN.md section 7.

Usage: /venv/bin/python findings/repro.py [F1 F2 ...]   (POKERKIT_ROOT overrides /repo)
Each function returns None when the behaviour is right and a string describing
what went wrong otherwise.  Exit status 1 iff some selected repro fails.
These are regression demonstrations kept next to known_findings.json; the
registered checks find the same failures by simulation.
"""
import os, sys, warnings
sys.path.insert(0, os.environ.get('POKERKIT_ROOT', '/repo'))
warnings.simplefilter('ignore')
from fractions import Fraction
from pokerkit import *
A = Automation
ALL = tuple(Automation)


def F1():
    # hole/board dealing automated, burning not; both players all-in from the blinds
    autos = tuple(a for a in ALL if a is not A.CARD_BURNING)
    try:
        s = NoLimitTexasHoldem.create_state(autos, True, 0, (1, 2), 2, (1, 2), 2)
    except ValueError as e:
        return f'constructor raised mid-cascade: {e}'
    n = 0
    while s.status:
        n += 1
        if n > 50:
            return 'does not terminate'
        if s.can_burn_card():
            try:
                s.burn_card()
            except ValueError as e:
                return f'burn_card (query said yes) raised mid-cascade after {len(s.operations)} ops: {e}'
        else:
            return 'stuck'
    return None


def F2():
    s = NoLimitTexasHoldem.create_state(
        tuple(a for a in ALL if a is not A.RUNOUT_COUNT_SELECTION), True, 0, (1, 2), 2, (10, 10), 2,
        mode=Mode.CASH_GAME)
    s.complete_bet_or_raise_to(10)
    s.check_or_call()
    out = []
    if not s.can_select_runout_count(2, 0):
        out.append('can_select_runout_count(2, 0) is False for an eligible player 0')
    if s.can_select_runout_count(0, 1):
        out.append('can_select_runout_count(0, 1) is True for a non-positive count')
    try:
        op = s.select_runout_count(2, 1)
        if op.player_index != 1:
            out.append(f'select_runout_count(2, 1) applied to player {op.player_index}')
    except ValueError as e:
        out.append(f'select_runout_count(2, 1) refused: {e}')
    return '; '.join(out) or None


def F3():
    s = NoLimitTexasHoldem.create_state(ALL, True, 0, (1, 2), 2, (10, 10), 2)
    s.fold()
    assert not s.status
    i = s.statuses.index(True)
    try:
        ok = s.can_show_or_muck_hole_cards(repr(s.hole_cards[i][0]), i)
    except AssertionError:
        return 'can_show_or_muck_hole_cards(partial, i) after the hand raised AssertionError'
    return None if ok is False else 'partial non-standard show accepted'


def F4():
    autos = (A.ANTE_POSTING, A.BET_COLLECTION, A.BLIND_OR_STRADDLE_POSTING, A.CARD_BURNING,
             A.HOLE_CARDS_SHOWING_OR_MUCKING, A.HAND_KILLING, A.CHIPS_PUSHING, A.CHIPS_PULLING)
    s = FixedLimitOmahaHoldemHighLowSplitEightOrBetter.create_state(
        autos, True, 0, (1, 2), 2, 4, (2, 100, 100), 3)
    s.deal_hole('Ac2c3d4d'); s.deal_hole('KsKhQsQh'); s.deal_hole('JsJhTsTh')
    s.complete_bet_or_raise_to(4); s.check_or_call(); s.check_or_call()
    s.deal_board('5h6h9c')
    s.complete_bet_or_raise_to(); s.check_or_call()      # a side pot between P1 and P2 only
    s.deal_board('Kd')
    while s.actor_index is not None: s.check_or_call()
    s.deal_board('2d')
    while s.actor_index is not None: s.check_or_call()
    # P0 has the only low and is eligible for the main pot only. The side pot (P1 v P2)
    # has no low contender: it must go entirely to P1 (trip kings beat trip jacks).
    if s.payoffs[2] != -6:
        return f'P2 (worse high, no low) gets part of the side pot: payoffs {s.payoffs}'
    return None


def F5():
    s = FixedLimitOmahaHoldemHighLowSplitEightOrBetter.create_state(ALL, True, 0, (1, 2), 2, 4, 100, 3)
    lo, hi = s.min_completion_betting_or_raising_to_amount, s.max_completion_betting_or_raising_to_amount
    caps = {st.max_completion_betting_or_raising_count for st in s.streets}
    if s.betting_structure != BettingStructure.FIXED_LIMIT or lo != hi or caps != {4}:
        return f'structure {s.betting_structure}, first raise-to range [{lo}, {hi}], caps {caps}'
    return None


def F6():
    autos = tuple(a for a in ALL if a not in (A.HOLE_DEALING, A.BOARD_DEALING))
    g = NoLimitTexasHoldem(autos, True, 2, (1, 2), 2)        # uniform ante 2, trimming on
    s = g((100, 1, 100), 3)                                   # P1 cannot cover the ante ...
    s.deal_hole('2c3d'); s.deal_hole('AsAh'); s.deal_hole('7c8d')   # ... and wins the hand
    for board in ('AdKsQh', '9c', '4s'):
        while s.actor_index is not None:
            s.check_or_call()
        s.deal_board(board)
    while s.actor_index is not None:
        s.check_or_call()
    assert not s.status
    hh = HandHistory.from_game_state(g, s)
    hh2 = HandHistory.loads(hh.dumps())
    end = None
    for end in hh2:
        pass
    if end.stacks != s.stacks:
        return f'replay of the saved hand ends with stacks {end.stacks}, played hand {s.stacks}'
    return None


def F7():
    eq = calculate_equities((parse_range('AsKs'), parse_range('QhQd')), Card.parse('KhQs9c9dTd'),
                            2, 5, Deck.STANDARD, (StandardHighHand, EightOrBetterLowHand), sample_count=10)
    if [round(x, 6) for x in eq] != [0.0, 1.0]:
        return f'no low possible, trips beat pair, equities {eq} instead of [0, 1]'
    return None


def F8():
    # cash game: two players put in more than the third, then both fold (the last one "without reason")
    s = NoLimitTexasHoldem.create_state(ALL, True, 0, (1, 2), 2, (100, 100, 5), 3, mode=Mode.CASH_GAME)
    s.check_or_call()                 # P2 (5 chips) calls 2
    s.complete_bet_or_raise_to(20)    # P0
    s.check_or_call()                 # P1 calls 20
    s.check_or_call()                 # P2 all-in for 5
    try:
        s.complete_bet_or_raise_to(10) if s.can_complete_bet_or_raise_to(10) else s.check_or_call()
        while s.status and s.actor_index is not None:
            if s.can_fold():
                s.fold()
            else:
                s.check_or_call()
    except (ZeroDivisionError, AssertionError) as e:
        return f'{type(e).__name__} after both deep players folded: chips {s.stacks}'
    if s.status:
        return 'hand did not finish'
    if sum(s.payoffs) != 0:
        return f'payoffs {s.payoffs} do not sum to zero'
    return None


def F9():
    autos = tuple(a for a in ALL if a not in (A.HOLE_CARDS_SHOWING_OR_MUCKING, A.RUNOUT_COUNT_SELECTION))
    s = NoLimitTexasHoldem.create_state(autos, True, 0, (1, 2), 2, (10, 50, 50), 3, mode=Mode.CASH_GAME)
    s.complete_bet_or_raise_to(10)    # P2... whoever acts first shoves/calls so that one player is all-in
    s.check_or_call()
    s.check_or_call()
    # flop betting between the two deep players: one bets all-in, the other calls -> all-in showdown on the flop
    try:
        while s.status:
            if s.actor_index is not None:
                if s.can_complete_bet_or_raise_to(s.max_completion_betting_or_raising_to_amount):
                    s.complete_bet_or_raise_to(s.max_completion_betting_or_raising_to_amount)
                else:
                    s.check_or_call()
            elif s.can_select_runout_count():
                s.select_runout_count(None)
            elif s.can_show_or_muck_hole_cards():
                live = sum(s.statuses)
                s.show_or_muck_hole_cards(live == 1)      # everybody but the last one mucks
            else:
                return 'stuck'
    except AssertionError as e:
        import traceback
        fn = traceback.extract_tb(e.__traceback__)[-1].name
        return f'AssertionError in {fn} after all but one player mucked at an all-in showdown'
    return None


def F10():
    s = NoLimitTexasHoldem.create_state(ALL, True, 0, (100, 200), 200, (900, 20000, 800, 20000), 4)
    s.complete_bet_or_raise_to(800)   # P2 all-in, a full raise of 600
    s.check_or_call()                 # P3 calls 800
    s.complete_bet_or_raise_to(900)   # P0 all-in, short raise of 100
    s.check_or_call()                 # P1 calls 900
    if s.actor_index == 3 and s.can_complete_bet_or_raise_to():
        return 'P3 already acted on the last full raise and may re-raise after a short all-in of 100'
    return None


def F14():
    # both blinds are all-in from the antes; a late-seated player's post (negative entry) must not move the opener
    autos = (A.ANTE_POSTING, A.BET_COLLECTION, A.BLIND_OR_STRADDLE_POSTING, A.HOLE_DEALING)
    plain = NoLimitTexasHoldem.create_state(autos, True, 1, (1, 2, 0, 0), 2, (1, 1, 5, 5), 4)
    post = NoLimitTexasHoldem.create_state(autos, True, 1, (1, 2, 0, -2), 2, (1, 1, 5, 5), 4)
    if plain.actor_index != 2:
        return f'without a post player {plain.actor_index} opens, expected 2 (first able seat after the blinds)'
    if post.actor_index != 2:
        return f'with a post by player 3 player {post.actor_index} opens, without it player 2: the post counted'
    return None


def F15():
    # heads-up, equal blinds: the small blind/button (player 1) acts first pre-flop, player 0 first on later streets
    autos = (A.ANTE_POSTING, A.BET_COLLECTION, A.BLIND_OR_STRADDLE_POSTING, A.HOLE_DEALING, A.CARD_BURNING, A.BOARD_DEALING)
    s = NoLimitTexasHoldem.create_state(autos, True, 0, (2, 2), 2, (50, 50), 2)
    if s.actor_index != 1:
        return f'pre-flop player {s.actor_index} opens, the button (player 1) must'
    s.check_or_call(); s.check_or_call()
    if s.actor_index != 0:
        return f'on the flop player {s.actor_index} opens, expected player 0'
    return None


def F16():
    # the same card twice in one explicit deal must not pass silently when warnings are errors
    s = NoLimitTexasHoldem.create_state((A.ANTE_POSTING, A.BET_COLLECTION, A.BLIND_OR_STRADDLE_POSTING), True, 0, (1, 2), 2,
                                        (100, 100), 2)
    with warnings.catch_warnings():
        warnings.simplefilter('error')
        if s.can_deal_hole('2c2c'):
            return "can_deal_hole('2c2c') is True with warnings as errors: the player would hold the deuce of clubs twice"
        if not s.can_deal_hole('2c3c'):
            return "can_deal_hole('2c3c') is refused"
    return None


def F17():
    # a note between two partial deals of the flop must not start a new street in the protocol output
    from pokerkit import HandHistory
    g = NoLimitTexasHoldem((A.ANTE_POSTING, A.BET_COLLECTION, A.BLIND_OR_STRADDLE_POSTING, A.HOLE_CARDS_SHOWING_OR_MUCKING,
                            A.HAND_KILLING, A.CHIPS_PUSHING, A.CHIPS_PULLING), True, 0, (1, 2), 2)
    s = g((200, 200), 2)
    s.deal_hole('AsKs'); s.deal_hole('QhQd')
    s.complete_bet_or_raise_to(6); s.check_or_call()
    s.burn_card('2c'); s.deal_board('7h'); s.no_operate(commentary='dealer fumbles'); s.deal_board('8h9h')
    for c, b in (('3c', 'Td'), ('4c', '2d'), (None, None)):
        s.check_or_call(); s.check_or_call()
        if c:
            s.burn_card(c); s.deal_board(b)
    hh = HandHistory.from_game_state(g, s, compression_status=False)
    line = hh.to_pluribus_protocol(1)
    last = list(hh.to_acpc_protocol(0, 1))[-1][1].strip()
    want = 'STATE:1:r6c/cc/cc/cc:AsKs|QhQd/7h8h9h/Td/2d:-6|6:p1|p2'
    if line != want:
        return f'Pluribus line {line!r}, the hand played is {want!r}'
    if last != 'MATCHSTATE:0:1:r6c/cc/cc/cc:AsKs|QhQd/7h8h9h/Td/2d':
        return f'last ACPC message {last!r}'
    return None


def F18():
    # naming one held card twice in a discard must be refused by query, verifier and operation alike, state untouched
    from pokerkit import NoLimitDeuceToSevenLowballSingleDraw
    s = NoLimitDeuceToSevenLowballSingleDraw.create_state(
        (A.ANTE_POSTING, A.BET_COLLECTION, A.BLIND_OR_STRADDLE_POSTING, A.CARD_BURNING, A.HOLE_DEALING), True, 0, (1, 2), 2,
        (100, 100), 2)
    s.check_or_call(); s.check_or_call()
    i = s.stander_pat_or_discarder_index
    c = s.hole_cards[i][0]
    if s.can_stand_pat_or_discard((c, c)):
        before = list(s.hole_cards[i])
        try:
            s.stand_pat_or_discard((c, c))
        except ValueError as e:
            return (f'can_stand_pat_or_discard(({c!r}, {c!r})) is True, the operation raises {e!r} and leaves the hand '
                    f'{s.hole_cards[i]} (was {before}), discards {s.discarded_cards}')
        return 'a card was discarded twice'
    return None


def F19():
    # one of his own cards named twice when a player tables his hand: not recommended (refused with warnings as errors)
    s = NoLimitTexasHoldem.create_state((A.ANTE_POSTING, A.BET_COLLECTION, A.BLIND_OR_STRADDLE_POSTING, A.CARD_BURNING,
                                         A.HOLE_DEALING, A.BOARD_DEALING), True, 0, (1, 2), 2, (100, 100), 2)
    while s.actor_index is not None:
        s.check_or_call()
    h = s.hole_cards[s.showdown_index]
    arg = repr(h[0]) * 2
    with warnings.catch_warnings():
        warnings.simplefilter('error')
        if s.can_show_or_muck_hole_cards(arg):
            return f'can_show_or_muck_hole_cards({arg!r}) is True for a player holding {h} with warnings as errors'
        if not s.can_show_or_muck_hole_cards(''.join(map(repr, h))):
            return 'showing the hand actually held is refused'
    return None


def F20():
    # nine-handed razz, nobody folds: sixth and seventh street are both dealt as one shared card; both must be on the board
    from pokerkit import FixedLimitRazz, Automation
    s = FixedLimitRazz.create_state(tuple(Automation), True, 0, 1, 2, 4, 200, 9)
    s.post_bring_in()
    guard = 0
    while s.status and guard < 200:
        guard += 1
        s.check_or_call()
    board = list(s.get_board_cards(0))
    if len(board) != 2 or s.board_count != 1:
        return f'after two streets dealt as shared cards the only board holds {board} (board_cards {s.board_cards})'
    return None


if __name__ == '__main__':
    names = sys.argv[1:] or ['F1', 'F2', 'F3', 'F4', 'F5', 'F6', 'F7', 'F8', 'F9', 'F10', 'F14', 'F15', 'F16', 'F17', 'F18', 'F19', 'F20']
    bad = 0
    for n in names:
        try:
            r = globals()[n]()
        except Exception as e:      # a repro that itself breaks is reported as such
            import traceback; traceback.print_exc()
            r = f'repro raised {type(e).__name__}: {e}'
        print(n, 'FAIL: ' + r if r else 'ok')
        bad += bool(r)
    sys.exit(1 if bad else 0)
