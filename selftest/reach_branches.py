"""Branch-level reach: which conditional branches inside pokerkit's functions were only ever taken ONE way by the simulated
runs of all checks together (a condition that never was true - or never false - under any check marks behaviour no oracle
has looked at, even where every line was executed).

  selftest/reach_branches.py [--runs N] [--seed S] [--jobs J] [--budget SECONDS]   -> selftest/reach_branches.json

sys.monitoring BRANCH events (destination offsets per conditional-jump instruction), one forked process per check, the
ordinary seeded runs of the check (same derive_seed as ./check). A location is switched off once both ways were seen.
"""
import dis
import json
import os
import sys
import time

HERE = os.path.dirname(os.path.dirname(os.path.abspath(__file__)))
if HERE not in sys.path:
    sys.path.insert(0, HERE)
CHECKS = ['c01', 'c02', 'c03', 'c06', 'c07', 'c08', 'c09', 'c10', 'c11', 'c12', 'c13', 'c14', 'c15', 'c16', 'c17', 'c18']
FILES = ['state.py', 'notation.py', 'analysis.py', 'utilities.py', 'hands.py', 'games.py']


def static_branches(path):
    """{(qualname, firstlineno, offset): (line, {dest offset: dest line})} for every conditional jump of every function."""
    top = compile(open(path).read(), path, 'exec')
    out = {}

    def walk(code, qual):
        is_class = '__qualname__' in code.co_names[:3] and code is not top
        if code is not top and not is_class:
            ins = list(dis.get_instructions(code))
            line_of = {}
            opname_at = {i.offset: i.opname for i in ins}
            cur = None
            for i in ins:
                if i.starts_line is not None:
                    cur = i.starts_line
                line_of[i.offset] = i.positions.lineno if i.positions and i.positions.lineno else cur
            for k, i in enumerate(ins):
                if i.opname.startswith('POP_JUMP_IF') or i.opname in ('FOR_ITER',):
                    # the fall-through skips the inline cache entries: it is the next instruction in the listing
                    nxt = ins[k + 1].offset if k + 1 < len(ins) else None
                    dests = {i.argval: line_of.get(i.argval)}
                    if nxt is not None:
                        dests[nxt] = line_of.get(nxt)
                    asserts = {d for d in dests if opname_at.get(d) == 'LOAD_ASSERTION_ERROR'}
                    out[(qual, code.co_firstlineno, i.offset)] = (line_of.get(i.offset), dests, i.opname, asserts)
        for c in code.co_consts:
            if hasattr(c, 'co_code'):
                name = c.co_name
                walk(c, c.co_qualname)
    walk(top, '')
    return out


def child(modname, runs, base_seed, budget_s, pipe_w):
    import importlib
    from sim import driver
    from sim.chooser import derive_seed
    mod = importlib.import_module('checks.' + modname)
    import pokerkit
    root = os.path.dirname(os.path.abspath(pokerkit.__file__)) + os.sep
    seen = {}           # (file, firstlineno, name, offset) -> set(dest)
    inside = {}
    mon = sys.monitoring
    tool = mon.COVERAGE_ID
    mon.use_tool_id(tool, 'reach-branches')

    def on_branch(code, offset, dest):
        ok = inside.get(code)
        if ok is None:
            fn = code.co_filename
            ok = inside[code] = fn[len(root):] if fn.startswith(root) and os.path.basename(fn) in FILES else False
        if ok is False:
            return mon.DISABLE
        s = seen.setdefault((ok, code.co_firstlineno, code.co_qualname, offset), set())
        s.add(dest)
        return mon.DISABLE if len(s) >= 2 else None
    mon.register_callback(tool, mon.events.BRANCH, on_branch)
    mon.set_events(tool, mon.events.BRANCH)
    t0 = time.time()
    done = 0
    for r in range(runs):
        if time.time() - t0 > budget_s:
            break
        try:
            driver.execute(mod, seed=derive_seed(base_seed, mod.ID, r))
        except Exception:       # noqa: BLE001
            pass
        done += 1
    mon.set_events(tool, 0)
    payload = json.dumps({'check': modname, 'runs': done,
                          'seen': [[list(k), sorted(v)] for k, v in seen.items()]}).encode()
    with os.fdopen(pipe_w, 'wb') as f:
        f.write(payload)
    os._exit(0)


def main():
    if os.environ.get('PYTHONHASHSEED') is None:
        os.execve(sys.executable, [sys.executable, os.path.abspath(__file__)] + sys.argv[1:], dict(os.environ, PYTHONHASHSEED='0'))
    a = sys.argv[1:]
    runs = int(a[a.index('--runs') + 1]) if '--runs' in a else 300
    seed = int(a[a.index('--seed') + 1]) if '--seed' in a else int(os.environ.get('VERIF_SEED', '1'))
    jobs = int(a[a.index('--jobs') + 1]) if '--jobs' in a else 16
    budget = int(a[a.index('--budget') + 1]) if '--budget' in a else 420
    only = a[a.index('--only') + 1].split(',') if '--only' in a else CHECKS
    pending, running, results = list(only), {}, {}
    while pending or running:
        while pending and len(running) < jobs:
            m = pending.pop(0)
            r, w = os.pipe()
            pid = os.fork()
            if pid == 0:
                os.close(r)
                child(m, runs, seed, budget, w)
            os.close(w)
            running[pid] = (m, r)
        # read whichever finishes (a child blocks on a full pipe until it is read)
        pid, (m, r) = next(iter(running.items()))
        buf = b''
        with os.fdopen(r, 'rb') as f:
            buf = f.read()
        os.waitpid(pid, 0)
        del running[pid]
        results[m] = json.loads(buf) if buf else {'check': m, 'runs': 0, 'seen': []}
        print(m, 'runs', results[m]['runs'], 'branch sites seen', len(results[m]['seen']), flush=True)
    union = {}
    for res in results.values():
        for k, v in res['seen']:
            union.setdefault(tuple(k), set()).update(v)
    root = os.path.join(os.environ.get('POKERKIT_ROOT', '/repo'), 'pokerkit')
    report = {'seed': seed, 'runs_per_check': {m: results[m]['runs'] for m in results}, 'files': {}, 'one_sided': {}, 'never': {}}
    for f in FILES:
        st = static_branches(os.path.join(root, f))
        both = one = never = 0
        for (qual, first, off), (line, dests, opname, asserts) in sorted(st.items(), key=lambda kv: (kv[1][0] or 0)):
            got = union.get((f, first, qual, off), set())
            if len(got & set(dests)) >= 2 or len(got) >= 2:
                both += 1
            elif got and set(dests) - got <= asserts:
                both += 1               # an assert that never failed: the untaken way is the AssertionError
            elif got:
                one += 1
                missing = [dests[d] for d in dests if d not in got]
                report['one_sided'].setdefault(f, []).append({'function': qual, 'line': line, 'op': opname,
                                                               'never_reached_line': missing})
            else:
                never += 1
                report['never'].setdefault(f, []).append({'function': qual, 'line': line})
        report['files'][f] = {'conditional_branches': both + one + never, 'both_ways': both, 'one_way_only': one,
                              'never_executed': never}
        print(f'{f:14s} branches {both + one + never}: both ways {both}, one way only {one}, never executed {never}')
    json.dump(report, open(os.path.join(HERE, 'selftest', 'reach_branches.json'), 'w'), indent=1)


if __name__ == '__main__':
    main()
