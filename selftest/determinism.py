"""Determinism self-test: the same VERIF_SEED must give the identical batch - run by run - in fresh interpreters,
under different PYTHONHASHSEED values and at different worker counts.  The batch digest is the sum of per-run digests
over (choice values drawn, shape of the explored history, probe counters, violation/abort signature), so any
divergence in any run changes it.

usage: selftest/determinism.py [--runs N] [--checks C01,C02,...]; writes selftest/determinism.json; exit 1 on divergence.
"""
import argparse, json, os, re, subprocess, sys, time

HERE = os.path.dirname(os.path.dirname(os.path.abspath(__file__)))
ALL = ['C01', 'C02', 'C03', 'C06', 'C07', 'C08', 'C09', 'C10', 'C11', 'C12', 'C13', 'C14', 'C15', 'C16', 'C17', 'C18']


def one(check, runs, hashseed, workers, seed):
    env = dict(os.environ, PYTHONHASHSEED=str(hashseed), VERIF_SEED=str(seed),
               VERIF_EVIDENCE_DIR='/tmp/verif-determinism-evidence', VERIF_REPLAY_DIR='/tmp/verif-determinism-replays')
    out = subprocess.run([sys.executable, os.path.join(HERE, 'run_check.py'), check, '--runs', str(runs), '--workers',
                          str(workers), '--budget', '900'], capture_output=True, text=True, env=env, cwd=HERE, timeout=1800)
    m = re.search(r'runs=(\d+)/\d+ .*digest=([0-9a-f]{16})', out.stdout)
    if not m:
        return None, out.stdout[-500:] + out.stderr[-500:]
    return (int(m.group(1)), m.group(2)), None


def main():
    ap = argparse.ArgumentParser()
    ap.add_argument('--runs', type=int, default=300)
    ap.add_argument('--checks', default=','.join(ALL))
    ap.add_argument('--seed', type=int, default=0)
    args = ap.parse_args()
    report = {'runs_per_batch': args.runs, 'verif_seed': args.seed, 'checks': {}, 'started': time.strftime('%Y-%m-%dT%H:%M:%SZ', time.gmtime())}
    bad = 0
    for check in args.checks.split(','):
        runs = args.runs if check not in ('C08', 'C15') else max(40, args.runs // 5)
        plans = [(0, 16), (0, 16), (1, 4), (987654321, 1 if runs <= 100 else 7)]
        got = []
        for hs, w in plans:
            r, err = one(check, runs, hs, w, args.seed)
            got.append({'pythonhashseed': hs, 'workers': w, 'result': r, 'error': err})
        digests = {tuple(g['result']) if g['result'] else None for g in got}
        ok = len(digests) == 1 and None not in digests
        report['checks'][check] = {'batches': got, 'identical': ok}
        print(check, 'identical' if ok else 'DIVERGED', [g['result'] for g in got], flush=True)
        bad += not ok
    report['verdict'] = 'deterministic' if not bad else f'{bad} checks diverged'
    json.dump(report, open(os.path.join(HERE, 'selftest', 'determinism.json'), 'w'), indent=1)
    subprocess.run(['rm', '-rf', '/tmp/verif-determinism-evidence', '/tmp/verif-determinism-replays'])
    return 1 if bad else 0


if __name__ == '__main__':
    sys.exit(main())
