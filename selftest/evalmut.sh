#!/bin/sh
# usage: selftest/evalmut.sh <name> <patch.diff> <check id>... ; runs the quick checks against a scratch copy of
# /repo with the patch applied (POKERKIT_ROOT seam; /repo itself is untouched). Prints one line per check.
name="$1"; patch="$2"; shift 2
dir="/tmp/verif-mut-$name"
rm -rf "$dir"; mkdir -p "$dir"
cp -r /repo/pokerkit "$dir/pokerkit"
find "$dir" -name __pycache__ -prune -exec rm -rf {} + 2>/dev/null
if ! (cd "$dir" && patch -p1 -s --no-backup-if-mismatch < "$patch"); then echo "$name: PATCH FAILED"; rm -rf "$dir"; exit 3; fi
for c in "$@"; do
  out=$(POKERKIT_ROOT="$dir" VERIF_REPLAY_DIR="$dir/replays" VERIF_EVIDENCE_DIR="$dir/evidence" /verif/check "$c" --tier quick ${EVALMUT_ARGS} 2>&1)
  rc=$?
  echo "$name $c exit=$rc $(echo "$out" | grep -m1 -A0 'VIOLATION\|HARNESS' ) | $(echo "$out" | grep -B1 -m1 VIOLATION | head -1 | cut -c1-300)"
  if [ $rc -eq 1 ] && [ -n "$KEEP_REPLAY" ]; then mkdir -p "$KEEP_REPLAY"; cp "$dir"/replays/*.json "$KEEP_REPLAY"/ 2>/dev/null; fi
done
rm -rf "$dir"
