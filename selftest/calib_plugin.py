"""pytest plugin (loaded with `-p calib_plugin`, no edit of /repo): runs the repository's own pinned test suite with the
per-operation monitors of C01, C02, C03, C06, C07, C10, C12 (table-all settlement), C13 and C14 attached to every State the tests create, through the
same State._update wrap the simulator uses.  The scripted hands are behaviour the maintainers pinned, so a monitor that
alarms there is either over-strict (a false alarm to correct) or has found a defect the suite tolerates (to triage).
Alarms never fail a test; they are written to $CALIB_OUT/calib-<pid>.json and merged by selftest/calibrate.py.
"""
from __future__ import annotations
import json
import os
import sys
import traceback

VERIF = os.path.dirname(os.path.dirname(os.path.abspath(__file__)))
if VERIF not in sys.path:
    sys.path.insert(0, VERIF)

from sim import boot  # noqa: E402

pk = boot.boot()
from sim import observe, play  # noqa: E402
from sim.play import Violation  # noqa: E402
from checks import c01, c02, c03, c06, c07, c10, c12, c13, c14  # noqa: E402
import pokerkit  # noqa: E402
from pokerkit.state import State  # noqa: E402
from pokerkit import utilities as U  # noqa: E402

OPS = tuple(c07_name for c07_name in (
    'post_ante', 'collect_bets', 'post_blind_or_straddle', 'burn_card', 'deal_hole', 'deal_board',
    'stand_pat_or_discard', 'fold', 'check_or_call', 'post_bring_in', 'complete_bet_or_raise_to',
    'select_runout_count', 'show_or_muck_hole_cards', 'kill_hand', 'push_chips', 'pull_chips'))

STATS = {'states_tracked': 0, 'states_untracked': 0, 'operations_observed': 0, 'quiescent_points': 0,
         'hands_finished': 0, 'monitor_calls': {}, 'alarms': [], 'skipped': {}}
WORLDS = {}
CURRENT_TEST = ['?']
CONSTRUCTING = set()


class FakeCtx:
    def __init__(self):
        self.counts = {}
        self.faults = {}

    def count(self, name, k=1):
        self.counts[name] = self.counts.get(name, 0) + k

    def fault(self, kind, k=1):
        self.faults[kind] = self.faults.get(kind, 0) + k


def unit_of_state(st):
    vals = [x for x in list(st.starting_stacks) if x]
    x = vals[0] if vals else 1
    return type(x)(1) if not isinstance(x, int) else 1


class FakeWorld:
    """What the monitors need of sim.play.World, for a State created by somebody else (a test)."""

    def __init__(self, st):
        self.state = st
        self.ctx = FakeCtx()
        self.in_call = None
        self.depth = 0
        self.decisions = []
        self.partial_marks = {}
        self.dealer = 'engine'
        self.ended = False
        self.deck_id = id(st.deck_cards)
        n = st.player_count
        bb = st.streets[0].min_completion_betting_or_raising_amount or 1
        finite = [s for s in st.starting_stacks if s != float('inf')]
        cfg = {'n': n, 'stacks': [int(s) + 1 for s in finite] or [1], 'bb': max(1, int(bb)), 'divmod': 'default',
               'chip': 'int'}
        self.cfg = cfg
        self.tick_cap = 10 ** 9
        self.monitors = {}
        skip = set()
        if any(s == float('inf') for s in st.starting_stacks):
            skip |= {'C01', 'C02', 'C03', 'C12'}    # infinite stacks: outside the stated bounds of these models
        zero_rake = getattr(st.rake, 'func', None) is U.rake and not getattr(st.rake, 'args', ()) and \
            getattr(st.rake, 'keywords', None) == {'percentage': 0}         # HandHistory's default: a 0 % rake
        if st.rake is not U.rake and not zero_rake:
            skip |= {'C02', 'C12'}                   # the settlement model runs with rake off
        if st.divmod is not U.divmod:
            skip |= {'C02', 'C12'}
        for name, make in (('C01', c01.ChipLedger), ('C06', c06.CardMonitor), ('C07', lambda: c07.PhaseMonitor(cfg)),
                           ('C03', lambda: c03.BetMonitor(unit_of_state(st))), ('C10', c10.DealMonitor),
                           ('C13', c13.OpenMonitor), ('C02', lambda: c02.SettleMonitor(cfg)),
                           ('C12', lambda: c12.TableAll(cfg)), ('C14', lambda: c14.RunoutMonitor(cfg))):
            if name in skip:
                STATS['skipped'][name] = STATS['skipped'].get(name, 0) + 1
                continue
            self.monitors[name] = make()
        from collections import Counter
        if 'C06' in self.monitors and c06.places(st) != Counter(st.deck):
            del self.monitors['C06']          # the test rigged a partial deck before the first operation
            STATS['skipped']['C06 (test replaced deck_cards)'] = STATS['skipped'].get('C06 (test replaced deck_cards)', 0) + 1

    enabled_phase = play.World.enabled_phase
    runout_prefs = ()

    def each(self, method, *args):
        for name in list(self.monitors):
            m = self.monitors[name]
            STATS['monitor_calls'][name] = STATS['monitor_calls'].get(name, 0) + 1
            try:
                getattr(m, method)(self, *args)
            except Violation as v:
                alarm(self, name, v.monitor, v.message)
                del self.monitors[name]
            except Exception as e:      # noqa: BLE001 - a monitor crashing on a scripted hand is a harness problem
                alarm(self, name, 'HARNESS', f'{type(e).__name__}: {e}\n' + traceback.format_exc()[-1500:])
                del self.monitors[name]


def alarm(world, prop, monitor, message):
    st = world.state
    STATS['alarms'].append({'test': CURRENT_TEST[0], 'property': prop, 'monitor': monitor, 'message': message[:1500],
                            'operations': len(st.operations),
                            'last_operations': [repr(o) for o in st.operations[-6:]]})


def world_of(st, create):
    w = WORLDS.get(id(st))
    if w is not None and w[0] is st:
        return w[1]
    if not create:
        return None
    fw = FakeWorld(st)
    WORLDS[id(st)] = (st, fw)
    STATS['states_tracked'] += 1
    return fw


def on_op(st, op):
    STATS['operations_observed'] += 1
    first = len(st.operations) == 1
    fw = world_of(st, create=first)
    if fw is None:
        if id(st) not in WORLDS:
            WORLDS[id(st)] = (st, None)          # a copy or a state first seen mid-hand: not tracked
            STATS['states_untracked'] += 1
        return
    if 'C06' in fw.monitors and id(st.deck_cards) != fw.deck_id:
        # the test replaced state.deck_cards by a deck of its own (the WSOP tests rig a partial deck this way): the
        # card-conservation monitor's reference multiset no longer applies to this state
        del fw.monitors['C06']
        STATS['skipped']['C06 (test replaced deck_cards)'] = STATS['skipped'].get('C06 (test replaced deck_cards)', 0) + 1
    fw.each('on_op', st, op)


def wrap(name):
    orig = getattr(State, name)

    def method(self, *args, **kw):
        fw = world_of(self, create=len(self.operations) == 0)
        if fw is None:
            return orig(self, *args, **kw)
        outer = fw.depth == 0 and id(self) not in CONSTRUCTING
        if outer:
            fw.in_call = (name, args)
            fw.decisions.append((name, args))
        fw.depth += 1
        try:
            out = orig(self, *args, **kw)
        except BaseException:
            fw.depth -= 1
            if outer:
                fw.in_call = None
                fw.decisions.pop()
            raise
        fw.depth -= 1
        if outer:
            fw.in_call = None
            quiescent(fw)
        return out

    method.__name__ = name
    method.__doc__ = orig.__doc__
    setattr(State, name, method)


def quiescent(fw):
    STATS['quiescent_points'] += 1
    fw.each('on_quiescent')
    if not fw.state.status and not fw.ended:
        fw.ended = True
        STATS['hands_finished'] += 1
        fw.each('on_end')


def pytest_configure(config):
    observe._HOOK = on_op
    for name in OPS:
        wrap(name)
    orig_init = State.__post_init__

    def post_init(self, *args, **kw):
        CONSTRUCTING.add(id(self))
        try:
            orig_init(self, *args, **kw)
        finally:
            CONSTRUCTING.discard(id(self))
        fw = world_of(self, create=len(self.operations) == 0)
        if fw is not None and fw.depth == 0:
            quiescent(fw)
    State.__post_init__ = post_init


def pytest_runtest_setup(item):
    CURRENT_TEST[0] = item.nodeid
    WORLDS.clear()


def pytest_sessionfinish(session, exitstatus):
    out = os.environ.get('CALIB_OUT')
    if out:
        os.makedirs(out, exist_ok=True)
        with open(os.path.join(out, 'calib-%d.json' % os.getpid()), 'w') as f:
            json.dump(STATS, f, indent=1, default=str)
