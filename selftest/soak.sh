#!/bin/sh
# usage: selftest/soak.sh <first seed> <last seed> [tier] [check ids...]
# Runs every check (or the listed ones) with VERIF_SEED = first..last on the tree the checks import (POKERKIT_ROOT or
# /repo), evidence and replays going to a scratch directory under ./soak-out (not /verif/evidence). Prints one line per
# (check, seed); any VIOLATION or HARNESS-ERROR on an unchanged tree is a false alarm or a finding to triage.
here="$(cd "$(dirname "$0")/.." && pwd)"
a="$1"; b="$2"; tier="${3:-quick}"; shift 3 2>/dev/null
checks="${*:-C01 C02 C03 C06 C07 C08 C09 C10 C11 C12 C13 C14 C15 C16 C17 C18}"
out="$here/soak-out"; mkdir -p "$out"
s="$a"
while [ "$s" -le "$b" ]; do
  for c in $checks; do
    VERIF_SEED="$s" VERIF_EVIDENCE_DIR="$out/evidence-$s" VERIF_REPLAY_DIR="$out/replays" "$here/check" "$c" --tier "$tier" > "$out/$c-$s.log" 2>&1
    rc=$?
    echo "seed=$s $c exit=$rc $(grep -m1 'VIOLATION\|HARNESS' "$out/$c-$s.log") | $(grep '^\[' "$out/$c-$s.log" | tail -1)"
  done
  s=$((s + 1))
done
