#!/bin/sh
# usage: confirm_seeded.sh <seed-id> <property> <patch.diff> <demo.py> <notes.txt>
# Confirms, in a scratch git worktree of /repo (removed afterwards), that the change applies, that the pinned
# suite still passes with it, and that the demonstration fails with it and passes without it. On success the
# change is stored as /verif/seeded/<seed-id>/ (patch.diff, demo.py, notes.txt, meta.json).
id="$1"; prop="$2"; patch="$3"; demo="$4"; notes="$5"
wt="/tmp/verif-confirm-$id"
git -C /repo worktree remove --force "$wt" 2>/dev/null; rm -rf "$wt"
git -C /repo worktree add -q --detach "$wt" HEAD || exit 3
cd "$wt" || exit 3
/venv/bin/python "$demo" "$wt" >/dev/null 2>&1; clean_rc=$?
if ! git apply "$patch"; then echo "$id: patch does not apply"; cd /; git -C /repo worktree remove --force "$wt"; exit 3; fi
/venv/bin/python "$demo" "$wt" > "$wt/demo.out" 2>&1; mut_rc=$?
suite=$(/venv/bin/python -m pytest -q -p no:cacheprovider -n 8 2>&1 | tail -1)
echo "$id: demo clean=$clean_rc mutated=$mut_rc suite: $suite"
ok=0
case "$suite" in *"145 passed"*) [ "$clean_rc" = 0 ] && [ "$mut_rc" = 1 ] && ok=1;; esac
if [ $ok = 1 ]; then
  d="/verif/seeded/$id"; mkdir -p "$d"
  cp "$patch" "$d/patch.diff"; cp "$demo" "$d/demo.py"; cp "$notes" "$d/notes.txt"
  /venv/bin/python - "$id" "$prop" "$d" "$suite" "$wt/demo.out" <<'PY'
import json, sys
id_, prop, d, suite, out = sys.argv[1:6]
notes = open(d + '/notes.txt').read()
meta = {'id': id_, 'breaks_property': prop, 'source': 'independent sub-agent given only the property text and a scratch worktree',
        'needs_to_manifest': notes.strip(),
        'confirmed': {'base_commit': __import__('subprocess').run(['git', '-C', '/repo', 'rev-parse', '--short', 'HEAD'], capture_output=True, text=True).stdout.strip(),
                      'pinned_suite_with_change': suite.strip(), 'demo_exit_without_change': 0, 'demo_exit_with_change': 1,
                      'demo_output_with_change': open(out).read()[-1500:],
                      'how': 'selftest/confirm_seeded.sh: scratch worktree of /repo, git apply, pytest -n 8, demo.py <worktree>'},
        'detected_by': {}}
json.dump(meta, open(d + '/meta.json', 'w'), indent=1)
PY
fi
cd /; git -C /repo worktree remove --force "$wt"
[ $ok = 1 ]
