"""Sensitivity self-test: every seeded change under /verif/seeded (sub-agent mutants and reverts of the fix: commits)
is applied to a scratch copy of /repo/pokerkit (POKERKIT_ROOT seam; /repo untouched, copy removed afterwards) and the
quick check of the property it breaks - plus every other check listed in ALSO - must exit 1 within the quick budget.
Writes selftest/sensitivity.json and the detected_by field of each seeded meta.json.

usage: selftest/sensitivity.py [--only id,id] [--jobs N]
"""
import argparse, json, os, re, shutil, subprocess, sys, time
from concurrent.futures import ThreadPoolExecutor

HERE = os.path.dirname(os.path.dirname(os.path.abspath(__file__)))
ALSO = {'C01': ['C07'], 'C02': ['C11'], 'C13': ['C03'], 'C11': ['C03'], 'C07': [], 'C12': []}


def evaluate(sid, prop, checks):
    d = f'/tmp/verif-sens-{sid}'
    shutil.rmtree(d, ignore_errors=True)
    os.makedirs(d)
    shutil.copytree('/repo/pokerkit', d + '/pokerkit', ignore=shutil.ignore_patterns('__pycache__'))
    p = subprocess.run(['patch', '-p1', '-s', '--no-backup-if-mismatch', '-i', os.path.join(HERE, 'seeded', sid, 'patch.diff')],
                       cwd=d, capture_output=True, text=True)
    res = {}
    if p.returncode != 0:
        shutil.rmtree(d, ignore_errors=True)
        return {'error': 'patch does not apply: ' + (p.stdout + p.stderr)[:200]}
    for c in checks:
        env = dict(os.environ, POKERKIT_ROOT=d, VERIF_REPLAY_DIR=d + '/replays', VERIF_EVIDENCE_DIR=d + '/evidence',
                   VERIF_WORKERS=os.environ.get('SENS_WORKERS', '8'), VERIF_FAST_FAIL='1', VERIF_MINIMISE_SCALE=os.environ.get('SENS_MINIMISE_SCALE', '0.35'))
        t0 = time.time()
        out = subprocess.run([os.path.join(HERE, 'check'), c, '--tier', 'quick'], capture_output=True, text=True, env=env)
        line = next((l for l in out.stdout.splitlines() if l.startswith('VIOLATION')), None)
        msg = ''
        if line:
            lines = out.stdout.splitlines()
            msg = lines[lines.index(line) - 1][:260]
        res[c] = {'exit': out.returncode, 'caught': out.returncode == 1 and line is not None, 'seconds': round(time.time() - t0, 1),
                  'violation': msg}
        if res[c]['caught']:
            keep = os.path.join(HERE, 'seeded', sid, 'replay-' + c + '.json')
            for f in os.listdir(d + '/replays'):
                if f.startswith(c + '-'):
                    shutil.copy(os.path.join(d, 'replays', f), keep)
                    break
    shutil.rmtree(d, ignore_errors=True)
    return res


def table():
    """Rewrite the generated table of DESIGN.md section 10 from the seeded meta.json files."""
    rows = ['| change | breaks | what it needs in order to manifest (first line of the notes) | caught by | first violation reported |',
            '|--------|--------|------------------------------------------------------------------|-----------|--------------------------|']
    n = caught = 0
    for sid in sorted(os.listdir(os.path.join(HERE, 'seeded'))):
        mp = os.path.join(HERE, 'seeded', sid, 'meta.json')
        if not os.path.exists(mp):
            continue
        meta = json.load(open(mp))
        det = meta.get('detected_by') or {}
        yes = [c for c, r in det.items() if r.get('caught')]
        no = [c for c, r in det.items() if not r.get('caught')]
        needs = (meta.get('needs_to_manifest') or '').strip().splitlines()[0] if meta.get('needs_to_manifest') else ''
        needs = re.sub(r'^fixed: property=\S+ \S+ ', '', needs)
        msg = next((det[c].get('violation') or '' for c in yes), '')
        own = meta['breaks_property']
        n += 1
        caught += own in yes
        cell = ', '.join(yes) if yes else '**missed**'
        if no:
            cell += ' (not by ' + ', '.join(no) + ')'
        rows.append('| %s | %s | %s | %s | %s |' % (sid, own, needs[:230].replace('|', '/'), cell, msg[:160].replace('|', '/').replace('\n', ' ')))
    rows.append('')
    rows.append(f'{caught} of {n} seeded changes are caught by the quick check of the property they break.')
    path = os.path.join(HERE, 'DESIGN.md')
    text = open(path).read()
    a = text.index('<!-- SENSITIVITY-TABLE-BEGIN -->') + len('<!-- SENSITIVITY-TABLE-BEGIN -->')
    b = text.index('<!-- SENSITIVITY-TABLE-END -->')
    open(path, 'w').write(text[:a] + '\n' + '\n'.join(rows) + '\n' + text[b:])
    print(rows[-1])


def main():
    ap = argparse.ArgumentParser()
    ap.add_argument('--table', action='store_true')
    ap.add_argument('--only')
    ap.add_argument('--jobs', type=int, default=2)
    args = ap.parse_args()
    if args.table:
        table()
        return 0
    ids = sorted(os.listdir(os.path.join(HERE, 'seeded')))
    if args.only:
        ids = [i for i in ids if i in args.only.split(',')]
    jobs = []
    for sid in ids:
        meta = json.load(open(os.path.join(HERE, 'seeded', sid, 'meta.json')))
        prop = meta['breaks_property']
        jobs.append((sid, prop, [prop] + ALSO.get(prop, [])))
    report_path = os.path.join(HERE, 'selftest', 'sensitivity.json')
    report = json.load(open(report_path)) if os.path.exists(report_path) else {'results': {}}
    with ThreadPoolExecutor(max_workers=args.jobs) as ex:
        for (sid, prop, checks), res in zip(jobs, ex.map(lambda j: evaluate(*j), jobs)):
            own = res.get(prop, {})
            print(sid, prop, 'CAUGHT' if own.get('caught') else 'MISSED', {c: r.get('caught') for c, r in res.items() if isinstance(r, dict)}, flush=True)
            report['results'][sid] = {'property': prop, 'checks': res}
            mp = os.path.join(HERE, 'seeded', sid, 'meta.json')
            meta = json.load(open(mp))
            meta['detected_by'] = {c: {'caught': r.get('caught'), 'violation': r.get('violation')} for c, r in res.items() if isinstance(r, dict)}
            json.dump(meta, open(mp, 'w'), indent=1)
    report['when'] = time.strftime('%Y-%m-%dT%H:%M:%SZ', time.gmtime())
    report['repo_head'] = subprocess.run(['git', '-C', '/repo', 'rev-parse', '--short', 'HEAD'], capture_output=True, text=True).stdout.strip()
    missed = [s for s, r in report['results'].items() if not r['checks'].get(r['property'], {}).get('caught')]
    report['missed_by_own_check'] = missed
    json.dump(report, open(report_path, 'w'), indent=1)
    print('missed by own check:', missed)
    return 1 if missed else 0


if __name__ == '__main__':
    sys.exit(main())
