"""Calibration self-test: the repository's pinned suite under the simulator's monitors (selftest/calib_plugin.py).

usage: selftest/calibrate.py [--jobs N]
Runs `pytest -p calib_plugin` in /repo (POKERKIT_ROOT overrides), merges the per-worker reports, classifies every alarm
as EXPECTED (listed below with the reason) or UNEXPECTED, writes selftest/calibrate.json and exits 1 on an unexpected alarm.
"""
import argparse, glob, json, os, shutil, subprocess, sys, tempfile, time

HERE = os.path.dirname(os.path.dirname(os.path.abspath(__file__)))
ROOT = os.environ.get('POKERKIT_ROOT', '/repo')

# (test name fragment, monitor) -> why an alarm is expected there
EXPECTED = [
    ('test_unknown_showdown', 'C01.terminal',
     'K1 (open finding): every remaining player mucks, the pot is never awarded; this test pins that behaviour'),
]


def main():
    ap = argparse.ArgumentParser()
    ap.add_argument('--jobs', type=int, default=8)
    args = ap.parse_args()
    out = tempfile.mkdtemp(prefix='verif-calib-')
    env = dict(os.environ, CALIB_OUT=out, PYTHONPATH=os.path.join(HERE, 'selftest') + os.pathsep + HERE,
               PYTHONHASHSEED='0', POKERKIT_ROOT=ROOT)
    t0 = time.time()
    p = subprocess.run(['/venv/bin/python', '-m', 'pytest', '-q', '-p', 'no:cacheprovider', '-p', 'calib_plugin',
                        '-n', str(args.jobs)], cwd=ROOT, env=env, capture_output=True, text=True)
    tail = p.stdout.strip().splitlines()[-1] if p.stdout.strip() else p.stderr[-300:]
    total = {}
    alarms = []
    for f in sorted(glob.glob(os.path.join(out, 'calib-*.json'))):
        d = json.load(open(f))
        for k, v in d.items():
            if isinstance(v, int):
                total[k] = total.get(k, 0) + v
            elif isinstance(v, dict):
                t = total.setdefault(k, {})
                for kk, vv in v.items():
                    t[kk] = t.get(kk, 0) + vv
        alarms += d['alarms']
    shutil.rmtree(out, ignore_errors=True)
    unexpected = []
    expected = []
    for a in alarms:
        why = next((w for frag, mon, w in EXPECTED if frag in a['test'] and a['monitor'] == mon), None)
        (expected if why else unexpected).append(dict(a, expected_because=why))
    report = {'when': time.strftime('%Y-%m-%dT%H:%M:%SZ', time.gmtime()), 'pytest': tail, 'pytest_exit': p.returncode,
              'wall_s': round(time.time() - t0, 1), 'totals': total,
              'expected_alarms': expected, 'unexpected_alarms': unexpected}
    json.dump(report, open(os.path.join(HERE, 'selftest', 'calibrate.json'), 'w'), indent=1)
    print('pytest:', tail)
    print('totals:', json.dumps(total))
    for a in expected:
        print('EXPECTED', a['test'].split('::')[-1], a['monitor'], '-', a['expected_because'])
    for a in unexpected:
        print('UNEXPECTED', a['test'], a['property'], a['monitor'], a['message'][:400])
    return 1 if unexpected or p.returncode != 0 else 0


if __name__ == '__main__':
    sys.exit(main())
