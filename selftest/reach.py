"""Reach of the simulated runs inside the code under test: which executable lines of pokerkit's modules are run by at
least one simulated execution of at least one check, and which are not (a change to a line that no run executes cannot
be detected by any oracle, so the unexecuted list is the blind-spot list of the workload and fault mix).

  selftest/reach.py [--runs N] [--seed S] [--jobs J]      writes selftest/reach.json and prints a summary

One forked process per check; line events through sys.monitoring (each location reported once, then disabled, so the
slow-down is small). The runs are ordinary seeded runs of the check (same derive_seed as ./check), so the measure is the
reach of the first N runs of `./check Cnn` with VERIF_SEED=S.
"""
import json
import os
import sys
import time

HERE = os.path.dirname(os.path.dirname(os.path.abspath(__file__)))
if HERE not in sys.path:
    sys.path.insert(0, HERE)
CHECKS = ['c01', 'c02', 'c03', 'c06', 'c07', 'c08', 'c09', 'c10', 'c11', 'c12', 'c13', 'c14', 'c15', 'c16', 'c17', 'c18']
FILES = ['state.py', 'notation.py', 'analysis.py', 'utilities.py', 'hands.py', 'lookups.py', 'games.py']


def executable_lines(path):
    """{function qualname: set(lines)} from the compiled code objects (docstrings and def lines of nested code excluded
    the way the interpreter itself reports lines)."""
    src = open(path).read()
    top = compile(src, path, 'exec')
    out = {}

    def walk(code, qual):
        lines = {ln for _, _, ln in code.co_lines() if ln is not None and ln > 0}
        if '__qualname__' in code.co_names[:3] and code is not top:
            lines = set()                       # a class body runs at import, not in a simulated run
        out.setdefault(qual, set()).update(lines)
        for c in code.co_consts:
            if hasattr(c, 'co_code'):
                name = c.co_name
                if name in ('<genexpr>', '<listcomp>', '<setcomp>', '<dictcomp>', '<lambda>'):
                    walk(c, qual)
                else:
                    walk(c, (qual + '.' if qual != '<module>' else '') + name)
    walk(top, '<module>')
    return out


def child(modname, runs, base_seed, budget_s, pipe_w):
    import importlib
    from sim import driver                      # installs the seams before pokerkit is imported
    from sim.chooser import derive_seed
    mod = importlib.import_module('checks.' + modname)
    import pokerkit
    root = os.path.dirname(os.path.abspath(pokerkit.__file__)) + os.sep
    seen = set()
    mon = sys.monitoring
    tool = mon.COVERAGE_ID
    mon.use_tool_id(tool, 'reach')

    def on_line(code, line):
        fn = code.co_filename
        if fn.startswith(root):
            seen.add((fn[len(root):], line))
        return mon.DISABLE
    mon.register_callback(tool, mon.events.LINE, on_line)
    mon.set_events(tool, mon.events.LINE)
    t0 = time.time()
    done = 0
    for r in range(runs):
        if time.time() - t0 > budget_s:
            break
        try:
            driver.execute(mod, seed=derive_seed(base_seed, mod.ID, r))
        except Exception:                       # noqa: BLE001 - reach only; verdicts are ./check's business
            pass
        done += 1
    mon.set_events(tool, 0)
    os.write(pipe_w, json.dumps({'check': modname, 'runs': done, 'lines': sorted(seen)}).encode())
    os.close(pipe_w)
    os._exit(0)


def main():
    if os.environ.get('PYTHONHASHSEED') is None:
        os.execve(sys.executable, [sys.executable, os.path.abspath(__file__)] + sys.argv[1:], dict(os.environ, PYTHONHASHSEED='0'))
    args = sys.argv[1:]
    runs = int(args[args.index('--runs') + 1]) if '--runs' in args else 400
    seed = int(args[args.index('--seed') + 1]) if '--seed' in args else int(os.environ.get('VERIF_SEED', '1'))
    jobs = int(args[args.index('--jobs') + 1]) if '--jobs' in args else 16
    budget = int(args[args.index('--budget') + 1]) if '--budget' in args else 600
    pending = list(CHECKS)
    running = {}
    results = {}
    while pending or running:
        while pending and len(running) < jobs:
            m = pending.pop(0)
            r, w = os.pipe()
            pid = os.fork()
            if pid == 0:
                os.close(r)
                child(m, runs, seed, budget, w)
            os.close(w)
            running[pid] = (m, r)
        pid, _ = os.wait()
        m, r = running.pop(pid)
        buf = b''
        while True:
            b = os.read(r, 1 << 20)
            if not b:
                break
            buf += b
        os.close(r)
        results[m] = json.loads(buf) if buf else {'check': m, 'runs': 0, 'lines': []}
        print(m, 'runs', results[m]['runs'], 'lines', len(results[m]['lines']), flush=True)
    root = os.path.join(os.environ.get('POKERKIT_ROOT', '/repo'), 'pokerkit')
    union = set()
    for m in results.values():
        union |= {tuple(x) for x in m['lines']}
    report = {'seed': seed, 'runs_per_check': {m: results[m]['runs'] for m in results}, 'files': {}, 'unreached': {}}
    for f in FILES:
        ex = executable_lines(os.path.join(root, f))
        tot = hit = 0
        for qual, lines in sorted(ex.items()):
            if qual == '<module>':
                continue                        # import-time lines (class bodies): run once at import, not by a run
            if not lines:
                continue
            got = {ln for ln in lines if (f, ln) in union}
            # the def line of a function is executed at import; do not count it either way
            body = lines - {min(lines)} if len(lines) > 1 else lines
            tot += len(body)
            hit += len(body & got)
            miss = sorted(body - got)
            if miss:
                report['unreached'].setdefault(f, {})[qual] = miss
        report['files'][f] = {'executable_lines_in_functions': tot, 'reached': hit}
        print(f'{f:14s} {hit}/{tot} lines reached ({100.0 * hit / max(tot, 1):.1f} %)')
    per_check = {}
    for m in results:
        per_check[m] = len({tuple(x) for x in results[m]['lines'] if x[0] == 'state.py'})
    report['state_py_lines_per_check'] = per_check
    json.dump(report, open(os.path.join(HERE, 'selftest', 'reach.json'), 'w'), indent=1)


if __name__ == '__main__':
    main()
