"""Writes /verif/seeded/revert-<Fn>/ for every fixed: entry of known_findings.json: the reverse of the fix: commit
(re-introducing the defect on the current tree), with the demonstration recorded in the entry."""
import json, os, subprocess
HERE = os.path.dirname(os.path.dirname(os.path.abspath(__file__)))
d = json.load(open(os.path.join(HERE, 'known_findings.json')))
for e in d['findings']:
    if e['status'] != 'fixed':
        continue
    out = os.path.join(HERE, 'seeded', 'revert-' + e['id'])
    os.makedirs(out, exist_ok=True)
    patch = subprocess.run(['git', '-C', '/repo', 'show', '-R', '--format=', e['commit'], '--', 'pokerkit'],
                           capture_output=True, text=True).stdout
    meta_path = os.path.join(out, 'meta.json')
    if os.path.exists(meta_path) and json.load(open(meta_path)).get('adapted'):
        print(e['id'], e['property'], 'kept (hand-adapted to the current tree)')
        continue
    open(os.path.join(out, 'patch.diff'), 'w').write(patch)
    chk = subprocess.run(['git', '-C', '/repo', 'apply', '--check', os.path.join(out, 'patch.diff')], capture_output=True, text=True)
    meta_path = os.path.join(out, 'meta.json')
    meta = json.load(open(meta_path)) if os.path.exists(meta_path) else {}
    meta.update({'id': 'revert-' + e['id'], 'breaks_property': e['property'], 'source': 'reverse of the fix: commit ' + e['commit'] +
                 ' (a genuine defect of the original tree, re-introduced)', 'needs_to_manifest': e['line'],
                 'demonstration': e['demonstration'], 'applies_to_head': chk.returncode == 0})
    meta.setdefault('detected_by', {})
    json.dump(meta, open(meta_path, 'w'), indent=1)
    print(e['id'], e['property'], 'applies' if chk.returncode == 0 else 'DOES NOT APPLY: ' + chk.stderr[:100])
