"""Cross-check of R-EVAL (ref/evalhand.py) against the engine's evaluators on random deals: same None-ness and the
same ordering between random pairs of hands, per hand type.  A disagreement here is triaged before C02 is believed."""
import os, sys, random
sys.path.insert(0, os.path.dirname(os.path.dirname(os.path.abspath(__file__))))
from sim import boot
pk = boot.boot()
import pokerkit
from pokerkit import Deck
from ref.evalhand import best_key

CASES = [('StandardHighHand', Deck.STANDARD, (2, 7), (0, 5)), ('StandardLowHand', Deck.STANDARD, (5, 5), (0, 0)),
         ('ShortDeckHoldemHand', Deck.SHORT_DECK_HOLDEM, (2, 2), (3, 5)), ('EightOrBetterLowHand', Deck.STANDARD, (5, 7), (0, 0)),
         ('RegularLowHand', Deck.REGULAR, (5, 7), (0, 0)), ('GreekHoldemHand', Deck.STANDARD, (2, 2), (3, 5)),
         ('OmahaHoldemHand', Deck.STANDARD, (4, 5), (3, 5)), ('OmahaEightOrBetterLowHand', Deck.STANDARD, (4, 5), (3, 5)),
         ('BadugiHand', Deck.REGULAR, (1, 4), (0, 0)), ('StandardBadugiHand', Deck.STANDARD, (4, 4), (0, 0)),
         ('KuhnPokerHand', Deck.KUHN_POKER, (1, 1), (0, 0))]
rng = random.Random(int(sys.argv[1]) if len(sys.argv) > 1 else 0)
N = int(sys.argv[2]) if len(sys.argv) > 2 else 3000
bad = 0
for name, deck, (h0, h1), (b0, b1) in CASES:
    cls = getattr(pokerkit, name)
    deck = list(deck)
    n_none = 0
    for _ in range(N):
        rng.shuffle(deck)
        nh, nb = rng.randint(h0, h1), rng.randint(b0, b1)
        board = deck[:nb]
        a, b = deck[nb:nb + nh], deck[nb + nh:nb + 2 * nh]
        ea, eb = cls.from_game_or_none(a, board), cls.from_game_or_none(b, board)
        ka, kb = best_key(name, a, board), best_key(name, b, board)
        if (ea is None) != (ka is None) or (eb is None) != (kb is None):
            bad += 1; print('NONE-DISAGREE', name, a, b, board, ea, ka, eb, kb); break
        if ea is None or eb is None:
            n_none += 1; continue
        eng = (ea > eb) - (ea < eb)
        ref = (ka > kb) - (ka < kb)
        if eng != ref:
            bad += 1; print('ORDER-DISAGREE', name, a, b, board, 'engine', eng, repr(ea), repr(eb), 'ref', ref, ka, kb); break
    print(name, 'ok' if not bad else 'BAD', 'none-cases', n_none)
sys.exit(1 if bad else 0)
