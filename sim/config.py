"""Configuration space of one simulated table, decoded from the choice sequence, and the
construction of the real pokerkit State from it.

A configuration is a plain JSON-able dict. All chip amounts are held as integer *unit counts*
and converted to the run's chip type at construction (`conv`), so that the same configuration
can be rebuilt for twins, forks, crash-recovery and replays.
"""
from __future__ import annotations
from decimal import Decimal
from fractions import Fraction
from functools import partial

from . import boot

pk = boot.boot()
from pokerkit import (  # noqa: E402
    Automation, BettingStructure, Deck, Mode, Opening, State, Street,
)
import pokerkit as _pk  # noqa: E402

AUTOS = tuple(Automation)          # definition order = bit order
ALL_MASK = (1 << len(AUTOS)) - 1

# code -> (class name, parameter kind, max players used by the generator, family)
PREDEFINED = {
    'FT': ('FixedLimitTexasHoldem', 'smallbig', 9, 'flop'),
    'NT': ('NoLimitTexasHoldem', 'minbet', 9, 'flop'),
    'NS': ('NoLimitShortDeckHoldem', 'minbet', 9, 'flop'),
    'NR': ('NoLimitRoyalHoldem', 'minbet', 5, 'flop'),
    'PO': ('PotLimitOmahaHoldem', 'minbet', 9, 'flop'),
    'FO8': ('FixedLimitOmahaHoldemHighLowSplitEightOrBetter', 'smallbig', 9, 'flop'),
    'F7S': ('FixedLimitSevenCardStud', 'stud', 8, 'stud'),
    'F7S8': ('FixedLimitSevenCardStudHighLowSplitEightOrBetter', 'stud', 8, 'stud'),
    'FR': ('FixedLimitRazz', 'stud', 8, 'stud'),
    'N2L1D': ('NoLimitDeuceToSevenLowballSingleDraw', 'minbet', 6, 'draw'),
    'F2L3D': ('FixedLimitDeuceToSevenLowballTripleDraw', 'smallbig', 6, 'draw'),
    'FB': ('FixedLimitBadugi', 'smallbig', 6, 'draw'),
}
PREDEFINED_CODES = tuple(PREDEFINED)
CUSTOM_CODES = ('XHE', 'X5S', 'X5D', 'XGRK', 'XKUHN', 'XA5', 'XO5', 'XSHL', 'XDM')
BOARD_CODES = ('FT', 'NT', 'NS', 'NR', 'PO', 'FO8', 'XHE', 'XGRK', 'XO5')

STACK_UNITS = (1, 2, 3, 5, 8, 13, 20, 40, 100, 200)
CHIP_TYPES = ('int', 'fraction', 'float', 'decimal')


def unit_of(cfg):
    t = cfg['chip']
    d = cfg.get('unit_den', 1)
    if t == 'int':
        return 1
    if t == 'fraction':
        return Fraction(1, d)
    if t == 'float':
        return 1.0 / {1: 1, 2: 2, 3: 4}[d]
    if t == 'decimal':
        return Decimal(1) / Decimal({1: 1, 2: 2, 3: 4}[d])
    raise AssertionError(t)


def conv(cfg, k):
    """Integer unit count -> chip value in the run's chip type."""
    u = unit_of(cfg)
    if cfg['chip'] == 'int':
        return int(k)
    if cfg.get('mixed') and cfg['chip'] == 'fraction' and cfg.get('unit_den', 1) == 1:
        return int(k)             # int amounts inside Fraction stacks (see conv_stack)
    if cfg.get('normalized') and cfg['chip'] == 'decimal':
        return (u * k).normalize()        # Decimal('1E+2') rather than Decimal('100'): the same value, another spelling
    return u * k


def conv_stack(cfg, k):
    u = unit_of(cfg)
    if cfg['chip'] == 'int':
        return int(k)
    if cfg.get('normalized') and cfg['chip'] == 'decimal':
        return (u * k).normalize()
    return u * k


def conv_values(cfg, spec):
    """A blinds/antes spec (int | list | dict with string keys) in unit counts -> chip values."""
    if isinstance(spec, dict):
        return {int(k): conv(cfg, v) for k, v in spec.items()}
    if isinstance(spec, (list, tuple)):
        return tuple(conv(cfg, v) for v in spec)
    return conv(cfg, spec)


# ------------------------------------------------------------------------------------------
# rake / divmod seams (legal custom callables are part of the configuration space)

def make_rake(cfg):
    kind = cfg.get('rake', 'none')
    if kind == 'none':
        return _pk.utilities.rake
    t = cfg['chip']
    pct = {'int': 0.05, 'float': 0.0625, 'fraction': Fraction(1, 20), 'decimal': Decimal('0.05')}[t]
    cap = conv_stack(cfg, 3)
    if kind == 'pct':
        return partial(_pk.utilities.rake, percentage=pct, cap=cap)
    if kind == 'nfnd':
        return partial(_pk.utilities.rake, percentage=pct, cap=cap, no_flop_no_drop=True)
    if kind == 'high':
        # 75 %: with int chips a pot of one or two chips is raked away entirely (round(0.75) == 1, round(1.5) == 2) - legal
        return partial(_pk.utilities.rake, percentage={'int': 0.75, 'float': 0.75, 'fraction': Fraction(3, 4),
                                                       'decimal': Decimal('0.75')}[t])
    if kind == 'perpot':
        one = conv_stack(cfg, 1)
        thr = conv_stack(cfg, 10)

        def rake_perpot(amount, state=None):
            if amount >= thr:
                return one, amount - one
            return amount - amount, amount
        return rake_perpot
    raise AssertionError(kind)


def make_divmod(cfg):
    kind = cfg.get('divmod', 'default')
    if kind == 'default':
        return _pk.utilities.divmod
    if kind == 'exact':
        def divmod_exact(dividend, divisor):
            q = Fraction(dividend) / divisor
            return q, Fraction(0)
        return divmod_exact
    if kind == 'denom':
        den = conv_stack(cfg, 5)

        def divmod_denom(dividend, divisor):
            q = (dividend // (divisor * den)) * den
            return q, dividend - q * divisor
        return divmod_denom
    raise AssertionError(kind)


# ------------------------------------------------------------------------------------------
# generation

def autos_from_mask(mask):
    return tuple(a for i, a in enumerate(AUTOS) if mask >> i & 1)


def pick_autos(ch, bias):
    forced = bias.get('autos_mask')
    if forced is not None:
        return forced
    style = ch.weighted('cfg.autos.style', bias.get('autos_style', (3, 2, 3, 3, 3)))
    # 0: all automated, 1: none, 2: sparse, 3: half, 4: dense
    if style == 0:
        mask = ALL_MASK
    elif style == 1:
        mask = 0
    else:
        num = {2: 1, 3: 2, 4: 3}[style]
        mask = 0
        for i in range(len(AUTOS)):
            if ch.chance('cfg.autos.bit', num, 4):
                mask |= 1 << i
    mask |= bias.get('autos_or', 0)
    mask &= ~bias.get('autos_clear', 0)
    return mask


def gen_config(ch, bias=None):
    """Decode a configuration from the chooser. `bias` narrows/weights the space per property."""
    bias = bias or {}
    cfg = {}
    codes = bias.get('variants')
    if codes is None:
        if ch.chance('cfg.custom', bias.get('custom_num', 1), 5):
            codes = CUSTOM_CODES
        else:
            codes = PREDEFINED_CODES
    code = ch.choice('cfg.variant', codes)
    cfg['variant'] = code
    maxp = PREDEFINED[code][2] if code in PREDEFINED else {
        'XHE': 9, 'X5S': 8, 'X5D': 6, 'XGRK': 9, 'XKUHN': 2, 'XA5': 6, 'XO5': 6, 'XSHL': 7, 'XDM': 6, 'XHD': 6}[code]
    maxp = bias.get('max_players_by_variant', {}).get(code, maxp)
    maxp = min(maxp, bias.get('max_players', 9))
    minp = min(bias.get('min_players', 2), maxp)
    cfg['n'] = n = minp + ch.pick('cfg.n', maxp - minp + 1)
    cfg['mode'] = bias.get('mode') or ('tournament', 'cash')[ch.pick('cfg.mode', 2)]
    chips = bias.get('chips', CHIP_TYPES)
    cfg['chip'] = ch.choice('cfg.chip', chips)
    cfg['unit_den'] = 1 + ch.pick('cfg.unit_den', 3) if cfg['chip'] != 'int' else 1
    if bias.get('allow_mixed') and cfg['chip'] == 'fraction' and cfg['unit_den'] == 1:
        cfg['mixed'] = bool(ch.pick('cfg.mixed', 2))
    if bias.get('allow_normalized') and cfg['chip'] == 'decimal':
        cfg['normalized'] = ch.chance('cfg.normalized', 1, 3)
    cfg['autos'] = pick_autos(ch, bias)
    bb = ch.choice('cfg.bb', bias.get('bbs', (2, 4, 10)))      # the small bet / min bet, in units
    cfg['bb'] = bb
    stack_pool = bias.get('stack_pool', STACK_UNITS)
    mult = bias.get('stack_mult')
    if mult is None:
        mult = ch.choice('cfg.stackmult', (1, 1, bb // 2 or 1))
    equal = bias.get('equal_stacks', False) or ch.chance('cfg.equalstacks', bias.get('equal_num', 1), 8)
    if equal:
        s = ch.choice('cfg.stack', stack_pool) * mult
        cfg['stacks'] = [s] * n
    else:
        cfg['stacks'] = [ch.choice('cfg.stack', stack_pool) * mult for _ in range(n)]
    family = PREDEFINED[code][3] if code in PREDEFINED else None
    # antes
    ante_kinds = bias.get('ante_kinds', ('none', 'none', 'uniform', 'bb', 'button', 'mixed'))
    if code in ('F7S', 'F7S8', 'FR', 'X5S', 'XSHL'):
        kind = ch.choice('cfg.ante.kind', tuple(k for k in ante_kinds if k in ('none', 'uniform', 'mixed')) or ('uniform',))
    elif code == 'XKUHN':
        kind = 'uniform'
    else:
        kind = ch.choice('cfg.ante.kind', ante_kinds)
    a = 1 + ch.pick('cfg.ante.amount', max(1, bb // 2 + 1))
    if kind == 'none':
        cfg['antes'] = 0
    elif kind == 'uniform':
        cfg['antes'] = a
    elif kind == 'bb':
        cfg['antes'] = {'1': a * 2}
    elif kind == 'button':
        cfg['antes'] = {'-1': a * 2}
    else:
        cfg['antes'] = [ch.pick('cfg.ante.mixed', a + 2) for _ in range(n)]
        if not any(cfg['antes']):
            cfg['antes'][0] = a
    cfg['ats'] = bool(ch.pick('cfg.ats', 2)) if bias.get('ats') is None else bias['ats']
    # forced bets
    if code in ('F7S', 'F7S8', 'FR', 'X5S', 'XSHL'):
        cfg['blinds'] = 0
        if cfg['antes'] == 0:
            cfg['bring_in'] = 1 + ch.pick('cfg.bringin', bb - 1)
        else:
            cfg['bring_in'] = ch.pick('cfg.bringin0', bb)        # 0 .. bb-1 (0 = no bring-in)
    elif code == 'XKUHN':
        cfg['blinds'] = 0
        cfg['bring_in'] = 0
    else:
        cfg['bring_in'] = 0
        h = bb // 2
        layouts = [[h, bb], [h, bb], [h, bb, 2 * bb], [bb, bb], [0, bb]]
        if n >= 4:
            layouts += [{'0': h, '1': bb, '-1': 2 * bb}, [h, bb, 0, -bb], [h, bb, -bb]]
        if bias.get('plain_blinds'):
            layouts = [[h, bb]]
        if bias.get('post_heavy') and n >= 3:
            # forced-bet stress: late-seated players' posts next to blinds that short stacks may be unable to cover
            layouts = [[h, bb, -bb], [h, bb, 0, -bb], [h, bb, -bb, -bb], [0, bb, -bb], [bb, bb, -bb],
                       {'0': h, '1': bb, '-1': -bb}, [h, bb, 2 * bb, -bb]]
            layouts = [lay for lay in layouts if isinstance(lay, dict) or len(lay) <= n]
        lay = ch.choice('cfg.blinds', layouts)
        if isinstance(lay, list) and len(lay) > n:
            lay = lay[:2]
        cfg['blinds'] = lay
    sbcs = bias.get('sbcs', (1, 1, 1, 2))
    cfg['sbc'] = ch.choice('cfg.sbc', sbcs) if code in BOARD_CODES else 1
    cfg['rake'] = ch.choice('cfg.rake', bias.get('rakes', ('none',)))
    dms = bias.get('divmods', ('default',))
    dm = ch.choice('cfg.divmod', dms)
    if dm == 'exact' and cfg['chip'] != 'fraction':
        dm = 'default'
    if dm == 'denom' and cfg['chip'] not in ('int', 'fraction'):
        dm = 'default'
    cfg['divmod'] = dm
    if code in CUSTOM_CODES or code == 'XHD':
        cfg['custom'] = gen_custom(ch, code, bias)
    if bias.get('allow_raw_lists'):
        cfg['raw_lists'] = ch.chance('cfg.raw_lists', 1, 3)
    if bias.get('ctor_variety') and code in PREDEFINED:
        cfg['ctor'] = ch.choice('cfg.ctor', ('call', 'call', 'create_pos', 'create_kw', 'call_kw'))
    if bias.get('big_mults') and code in PREDEFINED and PREDEFINED[code][1] != 'minbet':
        cfg['big_mult'] = ch.choice('cfg.big_mult', bias['big_mults'])
    if ch.chance('cfg.forced_allin', bias.get('forced_allin_num', 0), 16) and cfg['antes'] and not isinstance(cfg['antes'], dict):
        # forced-bet all-in table: everybody (or everybody but one) sits with no more than his ante, so that the first
        # betting round never opens and the hand goes from the forced bets straight to the run-out
        antes = cfg['antes'] if isinstance(cfg['antes'], list) else [cfg['antes']] * n
        keep = ch.pick('cfg.forced_allin.keep', n + 1)         # seat n = nobody keeps a deep stack
        cfg['stacks'] = [s if i == keep else max(1, min(s, antes[i])) for i, s in enumerate(cfg['stacks'])]
        cfg['forced_allin'] = True
    return cfg


def gen_custom(ch, code, bias):
    """Parameters of a user-defined street list (kept as data; built by custom_streets)."""
    c = {}
    c['structure'] = ch.choice('cfg.x.structure', ('NL', 'PL', 'FL'))
    # cap 0 is legal (a street on which nobody may bet or raise) and is not the same as "no cap" (None)
    c['cap'] = ch.choice('cfg.x.cap', (None, 4, 3, 1, 2, 0)) if c['structure'] != 'FL' else ch.choice('cfg.x.capfl', (4, 3, 1, 2, None, 0))
    if code == 'XHE':
        c['hole'] = 2 + ch.pick('cfg.x.hole', 2)
        c['partition'] = ch.choice('cfg.x.partition', ([3, 1, 1], [5], [3, 2], [2, 2, 1], [1, 1, 1, 1, 1], [4, 1]))
        c['first_board'] = bool(ch.pick('cfg.x.firstboard', 2))    # board cards already on the hole-card street
        c['burns'] = [bool(ch.pick('cfg.x.burn', 2)) for _ in range(6)]
    elif code in ('X5S', 'XSHL'):
        c['burns'] = [bool(ch.pick('cfg.x.burn', 2)) for _ in range(6)]
        c['low'] = bool(ch.pick('cfg.x.low', 2)) if code == 'X5S' else False
    elif code in ('X5D', 'XA5', 'XDM'):
        c['draws'] = 1 + ch.pick('cfg.x.draws', 3)
        c['burns'] = [bool(ch.pick('cfg.x.burn', 2)) for _ in range(6)]
        if code == 'XDM':       # draw game with mixed facings: some hole cards are dealt face up
            c['facings'] = [bool(ch.pick('cfg.x.facing', 2)) for _ in range(5)]
    elif code == 'XHD':
        c['burns'] = [bool(ch.pick('cfg.x.burn', 2)) for _ in range(6)]
    elif code == 'XGRK':
        c['burns'] = [True] * 6
    elif code == 'XO5':
        c['burns'] = [True] * 6
    return c


def custom_spec(cfg, autos):
    """(deck, hand_types, streets, betting_structure) of a custom variant."""
    code = cfg['variant']
    c = cfg['custom']
    bb = conv(cfg, cfg['bb'])
    big = conv(cfg, cfg['bb'] * 2)
    structure = {'NL': BettingStructure.NO_LIMIT, 'PL': BettingStructure.POT_LIMIT,
                 'FL': BettingStructure.FIXED_LIMIT}[c['structure']]
    cap = c['cap']
    H = _pk.hands
    if code == 'XHE':
        part = list(c['partition'])
        streets = []
        first_board = part.pop(0) if c['first_board'] else 0
        streets.append(Street(False, (False,) * c['hole'], first_board, False, Opening.POSITION, bb, cap))
        for i, k in enumerate(part):
            streets.append(Street(c['burns'][i], (), k, False, Opening.POSITION,
                                  bb if i < len(part) // 2 else big, cap))
        return Deck.STANDARD, (H.StandardHighHand,), tuple(streets), structure
    if code == 'X5S':
        low = c['low']
        streets = [Street(False, (False, True), 0, False, Opening.HIGH_CARD if low else Opening.LOW_CARD, bb, cap)]
        for i in range(3):
            streets.append(Street(c['burns'][i], (True,), 0, False,
                                  Opening.LOW_HAND if low else Opening.HIGH_HAND, bb if i < 1 else big, cap))
        return (Deck.REGULAR if low else Deck.STANDARD), ((H.RegularLowHand,) if low else (H.StandardHighHand,)), tuple(streets), structure
    if code == 'XSHL':      # seven-card stud, high / regular (ace-to-five, no qualifier) low split
        streets = [Street(False, (False, False, True), 0, False, Opening.LOW_CARD, bb, cap)]
        for i in range(3):
            streets.append(Street(c['burns'][i], (True,), 0, False, Opening.HIGH_HAND, bb if i < 1 else big, cap))
        streets.append(Street(c['burns'][3], (False,), 0, False, Opening.HIGH_HAND, big, cap))
        return Deck.STANDARD, (H.StandardHighHand, H.RegularLowHand), tuple(streets), structure
    if code in ('X5D', 'XA5', 'XDM'):
        facings = tuple(c.get('facings', (False,) * 5))
        streets = [Street(False, facings, 0, False, Opening.POSITION, bb, cap)]
        for i in range(c['draws']):
            streets.append(Street(c['burns'][i], (), 0, True, Opening.POSITION, bb if i < 1 else big, cap))
        if code in ('X5D', 'XDM'):
            return Deck.STANDARD, (H.StandardHighHand,), tuple(streets), structure
        return Deck.REGULAR, (H.RegularLowHand,), tuple(streets), structure
    if code == 'XHD':
        # NOT a legal street list: the second street prescribes a hole card AND a draw.  The constructor of Street refuses
        # it; a run on this "variant" ends as an aborted run (refused configuration).  It is in the pool of C10 only, so
        # that a tree which starts ACCEPTING such a street is also asked to deal it as prescribed.
        streets = (Street(False, (False, False, False, False), 0, False, Opening.POSITION, bb, cap),
                   Street(c['burns'][0], (False,), 0, True, Opening.POSITION, big, cap))
        return Deck.STANDARD, (H.StandardHighHand,), streets, structure
    if code == 'XGRK':
        streets = (Street(False, (False, False), 0, False, Opening.POSITION, bb, cap),
                   Street(True, (), 3, False, Opening.POSITION, bb, cap),
                   Street(True, (), 1, False, Opening.POSITION, big, cap),
                   Street(True, (), 1, False, Opening.POSITION, big, cap))
        return Deck.STANDARD, (H.GreekHoldemHand,), streets, structure
    if code == 'XO5':
        streets = (Street(False, (False,) * 5, 0, False, Opening.POSITION, bb, cap),
                   Street(True, (), 3, False, Opening.POSITION, bb, cap),
                   Street(True, (), 1, False, Opening.POSITION, big, cap),
                   Street(True, (), 1, False, Opening.POSITION, big, cap))
        return Deck.STANDARD, (H.OmahaHoldemHand, H.OmahaEightOrBetterLowHand), streets, structure
    if code == 'XKUHN':
        streets = (Street(False, (False,), 0, False, Opening.POSITION, bb, 1),)
        return Deck.KUHN_POKER, (H.KuhnPokerHand,), streets, BettingStructure.FIXED_LIMIT
    raise AssertionError(code)


def build(cfg, autos_mask=None):
    """Construct (game_or_None, state) for a configuration.  Raises whatever the constructor raises."""
    mask = cfg['autos'] if autos_mask is None else autos_mask
    autos = autos_from_mask(mask)
    n = cfg['n']
    mode = Mode.TOURNAMENT if cfg['mode'] == 'tournament' else Mode.CASH_GAME
    antes = conv_values(cfg, cfg['antes'])
    blinds = conv_values(cfg, cfg['blinds'])
    stacks = tuple(conv_stack(cfg, s) for s in cfg['stacks'])
    if cfg.get('raw_lists'):
        # the documented "values-like" arguments given as lists (which a careless helper might modify in place)
        antes = list(antes) if isinstance(antes, tuple) else antes
        blinds = list(blinds) if isinstance(blinds, tuple) else blinds
        stacks = list(stacks)
    kw = dict(mode=mode, starting_board_count=cfg['sbc'], divmod=make_divmod(cfg), rake=make_rake(cfg))
    code = cfg['variant']
    if code in PREDEFINED:
        clsname, kind, _, _ = PREDEFINED[code]
        cls = getattr(_pk, clsname)
        bb = conv(cfg, cfg['bb'])
        big = conv(cfg, cfg['bb'] * cfg.get('big_mult', 2))
        if kind == 'minbet':
            names = ('automations', 'ante_trimming_status', 'raw_antes', 'raw_blinds_or_straddles', 'min_bet')
            args = (autos, cfg['ats'], antes, blinds, conv(cfg, cfg.get('min_bet', cfg['bb'])))
        elif kind == 'smallbig':
            names = ('automations', 'ante_trimming_status', 'raw_antes', 'raw_blinds_or_straddles', 'small_bet', 'big_bet')
            args = (autos, cfg['ats'], antes, blinds, bb, big)
        else:
            names = ('automations', 'ante_trimming_status', 'raw_antes', 'bring_in', 'small_bet', 'big_bet')
            args = (autos, cfg['ats'], antes, conv(cfg, cfg['bring_in']), bb, big)
        ctor = cfg.get('ctor', 'call')
        if ctor != 'call' and 'create_state' in vars(cls):
            # the documented one-step construction, positionally or with every parameter passed by keyword
            if ctor == 'create_pos':
                return None, cls.create_state(*args, stacks, n, **kw)
            kwargs = dict(zip(names, args), raw_starting_stacks=stacks, player_count=n, **kw)
            return None, cls.create_state(**kwargs)
        if ctor == 'call_kw':
            game = cls(**dict(zip(names, args)), **kw)
        else:
            game = cls(*args, **kw)
        return game, game(stacks, n)
    deck, hand_types, streets, structure = custom_spec(cfg, autos)
    state = State(autos, deck, hand_types, streets, structure, cfg['ats'], antes, blinds,
                  conv(cfg, cfg['bring_in']), stacks, n, **kw)
    return None, state


def config_class(cfg):
    """Coarse class of a configuration, used for distinct-case digests."""
    return (cfg['variant'], cfg['n'], cfg['mode'], cfg['autos'], cfg['chip'], cfg['sbc'],
            cfg.get('rake'), cfg.get('divmod'), cfg['ats'])


def deck_size(state):
    return len(state.deck)
