"""SimExecutor - an in-process concurrent.futures.Executor whose schedule the simulator decides.

`map`/`submit` run the tasks in an order, chunking and "worker" assignment chosen through the Chooser
(exec_reorder fault); results are returned in submission order, as the Executor contract requires.
"""
from __future__ import annotations
from concurrent.futures import Executor, Future


class SimExecutor(Executor):
    def __init__(self, ch, ctx=None, label='exec', interleave=None):
        self.ch = ch
        self.ctx = ctx
        self.label = label
        self.interleave = interleave       # callable run once between two tasks of a map (another caller's work)
        self.tasks_run = 0
        self.schedules = []

    def map(self, fn, *iterables, timeout=None, chunksize=1):
        args = list(zip(*iterables))
        n = len(args)
        order = list(range(n))
        # a seeded permutation: repeatedly pick the next task among those not yet run
        pending = list(range(n))
        order = []
        workers = 1 + self.ch.pick(self.label + '.workers', 4)
        while pending:
            k = self.ch.pick(self.label + '.next', min(len(pending), workers * 2))
            order.append(pending.pop(k))
        results = [None] * n
        at = self.ch.pick(self.label + '.interleave_at', max(1, n)) if self.interleave is not None and n else None
        for pos, i in enumerate(order):
            if pos == at:
                hook, self.interleave = self.interleave, None
                hook()
                if self.ctx is not None:
                    self.ctx.fault('interleaved_call')
            results[i] = fn(*args[i])
            self.tasks_run += 1
        moved = sum(1 for a, b in zip(order, range(n)) if a != b)
        self.schedules.append(tuple(order))
        if self.ctx is not None and moved:
            self.ctx.fault('exec_reorder', moved)
        return iter(results)

    def submit(self, fn, /, *args, **kwargs):
        f = Future()
        try:
            f.set_result(fn(*args, **kwargs))
        except BaseException as e:      # noqa: BLE001
            f.set_exception(e)
        self.tasks_run += 1
        return f
