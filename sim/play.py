"""The simulated table: one real pokerkit State driven by player, dealer and adversary agents
under a seeded scheduler.  Every agent decision comes from the Chooser; every logged
Operation (also those fired by automation cascades or inside the constructor) is shown to the
run's monitors through the State._update wrap.
"""
from __future__ import annotations
import traceback
import warnings

from . import boot, observe
from .config import build, conv_stack, unit_of

pk = boot.boot()
observe.install(pk)
from pokerkit import Automation, Card, Mode  # noqa: E402

A = Automation


class Violation(Exception):
    """A property monitor says the property is broken."""

    def __init__(self, monitor, message, **sig):
        super().__init__(f'{monitor}: {message}')
        self.monitor = monitor
        self.message = message
        self.sig = dict(sig)


class EngineCrash(Exception):
    """The engine raised from a constructor with valid arguments or from an operation whose query said yes."""

    def __init__(self, exc, decision, log_grew, where):
        super().__init__(f'{type(exc).__name__}: {exc} in {where} during {decision}')
        self.exc = exc
        self.decision = decision
        self.log_grew = log_grew
        self.where = where


class Stuck(Exception):
    pass


def where_of(exc):
    tb = traceback.extract_tb(exc.__traceback__)
    for fr in reversed(tb):
        if '/pokerkit/' in fr.filename:
            return fr.name
    return tb[-1].name if tb else '?'


def cards_str(cards):
    return ''.join(repr(c) for c in cards)


class Ctx:
    """Per-run statistics and descriptors returned to the driver."""

    def __init__(self):
        self.counts = {}
        self.faults = {}
        self.nontrivial = False
        self.shape = []          # extra parts of the distinct-case digest
        self.sample = None
        self.notes = {}
        self.tags = set()        # 'kind:value' strings; the driver reports the number of distinct values per kind

    def tag(self, kind, value):
        self.tags.add(f'{kind}:{value}')

    def count(self, name, k=1):
        self.counts[name] = self.counts.get(name, 0) + k

    def fault(self, kind, k=1):
        self.faults[kind] = self.faults.get(kind, 0) + k


PROFILES = {
    # weights: fold, call, raise ; raise-size weights: min, max, pot, uniform
    'passive':    dict(fold=1, call=12, raise_=2, sizes=(6, 1, 1, 2), complete=1),
    'balanced':   dict(fold=3, call=8, raise_=5, sizes=(3, 2, 2, 3), complete=2),
    'aggressive': dict(fold=1, call=4, raise_=8, sizes=(1, 6, 2, 2), complete=4),
    'folder':     dict(fold=8, call=5, raise_=2, sizes=(3, 2, 1, 2), complete=1),
    'shover':     dict(fold=2, call=6, raise_=8, sizes=(0, 1, 0, 0), complete=4),
    # all-in laboratory: short stacks move in, deep stacks mostly call and sometimes min-raise, so that chains of
    # (full raise / all-in exactly a min-raise / short all-ins) facing callers who keep chips arise in one round
    'allin_lab':  dict(fold=1, call=6, raise_=4, sizes=(1, 0, 0, 0), complete=2),
}
PROFILE_NAMES = tuple(k for k in PROFILES if k != 'allin_lab')      # the laboratory profile is opted into by a check


def cap_runouts(state):
    """Largest run-out count the deck can physically serve (capacity rule, DESIGN C06)."""
    hole = sum(len(h) for h in state.hole_cards)
    board_total = sum(s.board_dealing_count for s in state.streets) * state.starting_board_count
    done = sum(len(r) for r in state.board_cards)
    burns_left = sum(1 for i, s in enumerate(state.streets)
                     if s.card_burning_status and (state.street_index is None or i > state.street_index))
    rem = board_total - done
    if rem <= 0:
        return 1
    free = len(state.deck) - hole - done - len(state.burn_cards)
    r = 1
    while r < 3 and (r + 1) * (rem + burns_left) <= free:
        r += 1
    return r


class World:
    def __init__(self, ch, ctx, cfg, monitors=(), *, profile=None, dealer=None, run_key='k',
                 autos_mask=None, muck_num=1, runout_prefs=(None, 1, 2, 2, 3), partial_show=True,
                 explicit_index_num=1, commentary_num=0, adopt=None, free_showdown_num=1, force_show=False,
                 commentary_fn=None, reuse_game=None, chatter_num=0):
        self.ch = ch
        self.chatter_num = chatter_num    # n/24 of the steps are preceded by a no-operation (a note in the log, legal at any time)
        self.ctx = ctx
        self.cfg = cfg
        self.monitors = list(monitors)
        self.profile_name = profile or ch.choice('world.profile', PROFILE_NAMES)
        self.profile = PROFILES[self.profile_name]
        self.dealer = dealer or ch.choice('world.dealer', ('engine', 'engine', 'explicit', 'counted'))
        self.muck_num = muck_num
        self.runout_prefs = runout_prefs
        self.partial_show = partial_show
        self.explicit_index_num = explicit_index_num
        self.partial_marks = {}
        self.decisions = []          # (method, args) of every public call that succeeded or crashed
        self.ticks = 0
        self.in_call = None
        self.state = None
        self.game = None
        self.unit = unit_of(cfg)
        self.n = cfg['n']
        self.tick_cap = 400 + 60 * self.n
        self.autos_mask = cfg['autos'] if autos_mask is None else autos_mask
        self.commentary_num = commentary_num
        self.commentary_fn = commentary_fn
        self.unknown_door = None      # player whose third-street up-card is dealt unknown (set by a check before play)
        self.unknown_burns = False    # half of the burns are dealt as "??" (set by a check before play)
        self.free_showdown_num = free_showdown_num
        self.force_show = force_show
        if adopt is not None:
            self.state = adopt
            self.constructing = False
            return
        boot.set_run_key(run_key)
        self.run_key = run_key
        self.constructing = True
        self._hook_depth = 0
        with observe.session(self._on_op):
            try:
                if reuse_game is not None:
                    # a second table from the SAME game object (the game must not have been changed by earlier tables)
                    stacks = [conv_stack(cfg, x) for x in cfg['stacks']]
                    self.game, self.state = reuse_game, reuse_game(stacks if cfg.get('raw_lists') else tuple(stacks), cfg['n'])
                else:
                    self.game, self.state = build(cfg, self.autos_mask)
            except Violation:
                raise
            except Exception as e:      # noqa: BLE001 - the constructor got valid arguments
                raise EngineCrash(e, ('State.__init__',), None, where_of(e)) from e
            finally:
                self.constructing = False
        for m in self.monitors:
            m.on_quiescent(self)

    # -- observation -------------------------------------------------------------------
    def _on_op(self, state, op):
        if self.state is not None and state is not self.state:
            return              # a twin or fork: its owner observes it
        for m in self.monitors:
            m.on_op(self, state, op)

    # -- applying decisions ------------------------------------------------------------
    def apply(self, name, *args, **kw):
        st = self.state
        before = len(st.operations)
        if self.commentary_num and not kw and self.ch.chance('commentary', self.commentary_num, 8):
            kw = {'commentary': self.commentary_fn(self.ch, len(self.decisions)) if self.commentary_fn
                  else 'note %d' % len(self.decisions)}
        self.decisions.append((name, args) if not kw else (name, args, kw))
        self.in_call = (name, args)
        with observe.session(self._on_op):
            try:
                op = getattr(st, name)(*args, **kw)
            except Violation:
                raise
            except Exception as e:      # noqa: BLE001
                raise EngineCrash(e, (name,) + tuple(map(str, args)), len(st.operations) - before,
                                  where_of(e)) from e
        self.in_call = None
        self.ticks += 1
        for m in self.monitors:
            m.on_quiescent(self)
        return op

    # -- card choice -------------------------------------------------------------------
    def pick_cards(self, kind, k, player_index=None):
        """Dealer's argument for a k-card deal: None / int count / explicit card string."""
        mode = self.dealer
        st = self.state
        if kind == 'burn' and self.unknown_burns and self.ch.chance('dealer.unknown_burn', 1, 2):
            self.ctx.fault('hidden_cards')
            return '??'             # a burn nobody saw (burns are never read again)
        if kind == 'hole' and self.unknown_door == player_index and st.street_index == 0:
            # "unknown door card": this player's exposed third-street card is dealt as "??" (an observer who missed it); he
            # then folds at his first decision, because from fourth street on nobody can open a round against an unknown
            # up-card
            pend = list(st.hole_dealing_statuses[player_index])[:k]
            pool = sorted(st.get_dealable_cards(k), key=repr)
            out = []
            for up in pend:
                if up:
                    out.append('??')
                    self.ctx.fault('unknown_door_card')
                else:
                    out.append(repr(pool.pop(self.ch.pick('dealer.card', len(pool)))))
            return ''.join(out)
        if mode == 'hidden':
            # unknown cards only where nothing has to read them: burns and face-down hole cards; a card may also be
            # half known (rank without suit "A?", suit without rank "?s") - it is still an unknown card
            def unknown():
                form = self.ch.weighted('dealer.unknown_form', (4, 1, 1))
                if form == 1:
                    return 'A23456789TJQK'[self.ch.pick('dealer.unknown_rank', 13)] + '?'
                if form == 2:
                    return '?' + 'cdhs'[self.ch.pick('dealer.unknown_suit', 4)]
                return '??'
            if kind == 'burn':
                self.ctx.fault('hidden_cards')
                return unknown()
            if kind == 'hole' and not any(list(st.hole_dealing_statuses[player_index])[:k]):
                self.ctx.fault('hidden_cards', k)
                return ''.join(unknown() for _ in range(k))
            return None if k == 1 else k
        if mode == 'engine':
            return None
        if mode == 'counted':
            return k
        pool = list(st.get_dealable_cards(k))
        pool.sort(key=repr)          # content order, independent of deck order
        out = []
        if mode == 'reserve':
            # "not recommended" but legal (a warning, not a refusal): the dealer names cards that lie in the muck or the
            # discard piles (also the burn pile, except for a burn) although the undealt deck would cover the deal -
            # as when a live hand is transcribed whose dealer reshuffled
            piles = [c for c in st.mucked_cards if c] + [c for d in st.discarded_cards for c in d if c]
            if kind != 'burn':
                piles += [c for c in st.burn_cards if c]
            piles = sorted(set(piles) - set(pool), key=repr)
            for j in range(k):
                src = piles if piles and self.ch.chance('dealer.reserve', 1, 2) else pool
                if not src:
                    src = pool or piles
                if not src:
                    return k
                c = src.pop(self.ch.pick('dealer.card', len(src)))
                out.append(c)
                if src is piles:
                    self.ctx.fault('reserve_card_named')
            return cards_str(out)
        for _ in range(k):
            if not pool:
                return k
            out.append(pool.pop(self.ch.pick('dealer.card', len(pool))))
        return cards_str(out)

    # -- one scheduler tick --------------------------------------------------------------
    def enabled_phase(self):
        s = self.state
        if s.can_post_ante():
            return 'ante'
        if s.can_collect_bets():
            return 'collect'
        if s.can_post_blind_or_straddle():
            return 'blind'
        if s.can_burn_card():
            return 'burn'
        if s.can_deal_hole():
            return 'hole'
        if s.can_deal_board():
            return 'board'
        if s.can_stand_pat_or_discard():
            return 'draw'
        if s.can_post_bring_in():
            return 'bringin'
        if s.actor_index is not None:
            return 'bet'
        if s.can_select_runout_count() or s.can_show_or_muck_hole_cards() or (
                self.dealer == 'hidden' and s.street is not None and s.showdown_index is not None):
            return 'showdown'
        if s.can_kill_hand():
            return 'kill'
        if s.can_push_chips():
            return 'push'
        if s.can_pull_chips():
            return 'pull'
        return None

    def maybe_index(self, label, indices):
        """Explicit player index among the enabled ones, or None (engine default) - free ordering."""
        indices = list(indices)
        if len(indices) > 1 and self.ch.chance(label + '.explicit', self.explicit_index_num, 2):
            return indices[self.ch.pick(label + '.idx', len(indices))]
        if self.ch.chance(label + '.explicit1', 1, 4):
            return indices[0]
        return None

    def step(self):
        """Perform one agent step. Returns the phase name, or None when nothing is enabled."""
        s = self.state
        ch = self.ch
        ph = self.enabled_phase()
        if ph is None:
            return None
        if self.chatter_num and ch.chance('chatter', self.chatter_num, 24):
            self.apply('no_operate')
            self.ctx.fault('note_interleaved')
        if ph == 'ante':
            i = self.maybe_index('ante', s.ante_poster_indices)
            self.apply('post_ante', *(() if i is None else (i,)))
        elif ph == 'collect':
            self.apply('collect_bets')
        elif ph == 'blind':
            i = self.maybe_index('blind', s.blind_or_straddle_poster_indices)
            self.apply('post_blind_or_straddle', *(() if i is None else (i,)))
        elif ph == 'burn':
            c = self.pick_cards('burn', 1)
            if isinstance(c, int):
                c = None
            self.apply('burn_card', *(() if c is None else (c,)))
        elif ph == 'hole':
            pending = [i for i in range(self.n) if s.hole_dealing_statuses[i]]
            i = self.maybe_index('hole', pending)
            j = s.hole_dealee_index if i is None else i
            maxk = len(s.hole_dealing_statuses[j])
            k = 1 + ch.pick('hole.k', maxk) if maxk > 1 and ch.chance('hole.bundle', 1, 2) else 1
            c = self.pick_cards('hole', k, j)
            if c is None and k > 1:
                c = k
            if i is None:
                self.apply('deal_hole', *(() if c is None else (c,)))
            else:
                self.apply('deal_hole', c, i)
        elif ph == 'board':
            full = s.board_dealing_count
            k = full
            if full > 1 and ch.chance('board.partial', 1, 4):
                k = 1 + ch.pick('board.k', full)
            c = self.pick_cards('board', k)
            if c is None and k != full:
                c = k
            self.apply('deal_board', *(() if c is None else (c,)))
        elif ph == 'draw':
            i = s.stander_pat_or_discarder_index
            held = list(s.hole_cards[i])
            style = ch.weighted('draw.style', (3, 3, 1))     # pat / some / all
            if style == 0:
                cards = []
            elif style == 2:
                cards = held
            else:
                cards = [c for c in held if ch.chance('draw.card', 1, 3)]
            self.apply('stand_pat_or_discard', *(() if not cards else (cards_str(cards),)))
        elif ph == 'bringin':
            p = self.profile
            if s.can_complete_bet_or_raise_to() and ch.weighted('bringin', (6, p['complete'])) == 1:
                self.raise_(s)
            else:
                self.apply('post_bring_in')
        elif ph == 'bet' and s.actor_index == self.unknown_door and s.can_fold():
            self.apply('fold')
        elif ph == 'bet' and self.profile_name == 'allin_lab':
            i = s.actor_index
            short = s.stacks[i] + s.bets[i] <= 6 * self.cfg['bb'] * self.unit
            can_raise = s.can_complete_bet_or_raise_to()
            if short:
                k = ch.weighted('lab.short', (1, 6 if can_raise else 0))          # 0 call, 1 move all-in
                if k == 1:
                    self.apply('complete_bet_or_raise_to', s.max_completion_betting_or_raising_to_amount)
                else:
                    self.apply('check_or_call')
            else:
                k = ch.weighted('lab.deep', (10, 3 if can_raise else 0, 1 if s.can_fold() else 0))   # call, min-raise, fold
                if k == 0:
                    self.apply('check_or_call')
                elif k == 1:
                    self.apply('complete_bet_or_raise_to', s.min_completion_betting_or_raising_to_amount)
                else:
                    self.apply('fold')
        elif ph == 'bet':
            p = self.profile
            w = [p['fold'] if s.can_fold() else 0, p['call'],
                 p['raise_'] if s.can_complete_bet_or_raise_to() else 0]
            k = ch.weighted('bet.action', (w[1], w[2], w[0]))     # 0 call, 1 raise, 2 fold
            if k == 0:
                self.apply('check_or_call')
            elif k == 1:
                self.raise_(s)
            else:
                self.apply('fold')
        elif ph == 'showdown':
            opts = []
            if s.can_show_or_muck_hole_cards() or (self.dealer == 'hidden' and s.showdown_index is not None):
                opts.append('show')
            if s.can_select_runout_count():
                opts.append('runout')
            o = opts[ch.pick('showdown.which', len(opts))] if len(opts) > 1 else opts[0]
            if o == 'runout':
                i = self.maybe_index('runout', s.runout_count_selector_indices)
                cap = cap_runouts(s)
                prefs = [r for r in self.runout_prefs if r is None or r <= cap]
                r = prefs[ch.pick('runout.count', len(prefs))]
                if i is None:
                    self.apply('select_runout_count', *(() if r is None else (r,)))
                else:
                    self.apply('select_runout_count', r, i)
            else:
                self.show(s)
        elif ph == 'kill':
            i = self.maybe_index('kill', s.hand_killing_indices)
            self.apply('kill_hand', *(() if i is None else (i,)))
        elif ph == 'push':
            self.apply('push_chips')
        elif ph == 'pull':
            i = self.maybe_index('pull', s.chips_pulling_indices)
            self.apply('pull_chips', *(() if i is None else (i,)))
        return ph

    def show(self, s):
        ch = self.ch
        i = s.showdown_index
        extra = ()
        order = list(s.showdown_indices)
        if len(order) > 1 and self.free_showdown_num and ch.chance('show.order', self.free_showdown_num, 4):
            i = order[ch.pick('show.order.idx', len(order))]      # any player still to show may go first
            extra = (i,)
        elif ch.chance('show.explicit_idx', 1, 6):
            extra = (i,)
        if any(not c for c in s.hole_cards[i]):
            # hidden cards: the player reveals real cards for the unknown slots (or gives up)
            forced = s.mode == Mode.TOURNAMENT
            if not forced and self.muck_num and ch.chance('show.hidden.muck', 1, 6):
                self.apply('show_or_muck_hole_cards', False, *extra)
                return
            pool = sorted((c for c in s.deck_cards if c), key=repr)
            out = []
            for c in s.hole_cards[i]:
                if c:
                    out.append(c)
                else:
                    out.append(pool.pop(ch.pick('show.reveal', len(pool))))
            self.ctx.count('revealed_unknown_cards')
            self.apply('show_or_muck_hole_cards', cards_str(out), *extra)
            return
        if self.force_show:
            self.apply('show_or_muck_hole_cards', True, *extra)
            return
        # 0: engine decides, 1: show all, 2: voluntary muck, 3: explicit own cards, 4: partial show
        w = [8, 3, 0, 2, 0]
        forced = s.mode == Mode.TOURNAMENT and s.all_in_status
        if not forced:
            w[2] = self.muck_num
            if s.mode == Mode.CASH_GAME and self.partial_show and len(s.hole_cards[i]) > 1:
                w[4] = 1
        k = ch.weighted('show.kind', w)
        if k == 0:
            if extra:
                self.apply('show_or_muck_hole_cards', None, *extra)
            else:
                self.apply('show_or_muck_hole_cards')
        elif k == 1:
            self.apply('show_or_muck_hole_cards', True, *extra)
        elif k == 2:
            self.apply('show_or_muck_hole_cards', False, *extra)
        elif k == 3:
            self.apply('show_or_muck_hole_cards', cards_str(s.hole_cards[i]), *extra)
        else:
            held = [c for c in s.hole_cards[i] if c]
            m = 1 + ch.pick('show.partial.k', max(1, len(held) - 1))
            arg = cards_str(held[:m])
            if s.can_show_or_muck_hole_cards(arg, *extra):
                self.apply('show_or_muck_hole_cards', arg, *extra)
                self.partial_marks[id(self.decisions[-1][1])] = True
            else:
                self.apply('show_or_muck_hole_cards', None, *extra)

    def raise_(self, s):
        ch = self.ch
        lo = s.min_completion_betting_or_raising_to_amount
        hi = s.max_completion_betting_or_raising_to_amount
        k = ch.weighted('bet.size', self.profile['sizes'])
        if k == 0 or lo >= hi:
            amt = lo
            if ch.chance('bet.size.default', 1, 3):
                self.apply('complete_bet_or_raise_to')
                return
        elif k == 1:
            amt = hi
        elif k == 2:
            amt = min(max(s.pot_completion_betting_or_raising_to_amount, lo), hi)
        else:
            u = self.unit
            span = int((hi - lo) / u)
            amt = lo + u * ch.pick('bet.size.uniform', span + 1) if span >= 1 else lo
        self.apply('complete_bet_or_raise_to', amt)

    def run(self):
        """Play the hand to the end. Raises Stuck when a live hand offers no operation."""
        s = self.state
        while s.status:
            if self.ticks > self.tick_cap:
                raise Stuck(f'tick cap {self.tick_cap} exceeded')
            if self.step() is None:
                raise Stuck('no operation available while the hand is not over')
        for m in self.monitors:
            m.on_end(self)


class Monitor:
    """Base class of property monitors."""

    def on_op(self, world, state, op):
        pass

    def on_quiescent(self, world):
        pass

    def on_end(self, world):
        pass


def warnings_mode(mode):
    """Context manager selecting how UserWarning behaves during a run ('ignore' or 'error')."""
    cm = warnings.catch_warnings()
    cm.__enter__()
    warnings.simplefilter('error' if mode == 'error' else 'ignore')
    return cm
