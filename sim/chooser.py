"""One integer decides everything: the choice sequence.

Every decision of a run - configuration, which agent moves, what it does, which
fault fires, the arguments of a bad request - is `Chooser.pick(label, n)`.
Seeded mode draws from random.Random(H(seed material)) and records; replay mode
returns the recorded values reduced mod n (0 when exhausted), so *every* int list
is a valid run, which is what makes generic minimisation possible.  Encodings are
arranged so that 0 is the simplest alternative.
"""
from __future__ import annotations
import hashlib
import random


def derive_seed(*parts) -> int:
    h = hashlib.sha256('|'.join(map(str, parts)).encode()).digest()
    return int.from_bytes(h[:8], 'big')


class Chooser:
    """Three modes: seeded (draw and record), positional replay (a flat list of ints) and label-keyed replay
    (`by_label`: {label: [values of that label in order of occurrence]}).  Label-keyed replay is what the
    minimiser works on: removing or simplifying the choices of one label (say, fewer players) does not shift the
    meaning of every later choice, which is where positional shrinking gets stuck.  In every mode a missing
    value is 0 (the simplest alternative) and values are reduced mod n, so every input is a valid run."""

    def __init__(self, seed: int | None = None, replay: list[int] | None = None, by_label: dict | None = None):
        assert sum(x is not None for x in (seed, replay, by_label)) == 1
        self.rng = random.Random(seed) if seed is not None else None
        self.replay = list(replay) if replay is not None else None
        self.by_label = {k: list(v) for k, v in by_label.items()} if by_label is not None else None
        self.seen: dict[str, int] = {}
        self.pos = 0
        self.values: list[int] = []
        self.labels: list[str] = []
        self.ns: list[int] = []

    def pick(self, label: str, n: int) -> int:
        assert n >= 1, (label, n)
        if self.rng is not None:
            v = self.rng.randrange(n) if n > 1 else 0
        elif self.by_label is not None:
            k = self.seen.get(label, 0)
            self.seen[label] = k + 1
            lst = self.by_label.get(label, ())
            v = lst[k] % n if k < len(lst) else 0
        else:
            v = self.replay[self.pos] % n if self.pos < len(self.replay) else 0
        self.pos += 1
        self.values.append(v)
        self.labels.append(label)
        self.ns.append(n)
        return v

    def choice(self, label: str, seq):
        return seq[self.pick(label, len(seq))]

    def chance(self, label: str, num: int, den: int) -> bool:
        """True with probability num/den; value 0 (the simple one) means False."""
        if num <= 0:
            return False
        return self.pick(label, den) >= den - num

    def weighted(self, label: str, weights) -> int:
        """Index drawn proportionally to integer weights; index 0 region comes first."""
        total = sum(weights)
        assert total > 0, (label, weights)
        v = self.pick(label, total)
        for i, w in enumerate(weights):
            if v < w:
                return i
            v -= w
        raise AssertionError

    def labelled(self):
        return [[l, n, v] for l, n, v in zip(self.labels, self.ns, self.values)]

    def grouped(self):
        """The drawn values as {label: [values]} (insertion order = first occurrence)."""
        out: dict[str, list[int]] = {}
        for l, v in zip(self.labels, self.values):
            out.setdefault(l, []).append(v)
        return out
