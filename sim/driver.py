"""Batch driver: seeded search over many simulated runs on all cores, violation triage against
known_findings.json, minimisation, replay files, evidence.

A check module provides:
    ID, LEVEL, RULE, ASSUMPTIONS, COMPONENTS, QUICK_RUNS, THOROUGH_RUNS
    run(ch: Chooser, ctx: Ctx) -> None       # raises play.Violation / play.EngineCrash / play.Stuck
    crash_is_violation: bool                  # True for C07/C08: engine crashes are that property's business
"""
from __future__ import annotations
import argparse
import faulthandler
import hashlib
import json
import multiprocessing
import os
import subprocess
import sys
import time
import traceback
import warnings
from concurrent.futures import ProcessPoolExecutor, as_completed

from . import boot
from .chooser import Chooser, derive_seed

VERIF = os.path.dirname(os.path.dirname(os.path.abspath(__file__)))
KNOWN_PATH = os.path.join(VERIF, 'known_findings.json')


def jsonable(x):
    if isinstance(x, dict):
        return {str(k): jsonable(v) for k, v in x.items()}
    if isinstance(x, (list, tuple, set, frozenset)):
        return [jsonable(v) for v in x]
    if isinstance(x, (str, int, float, bool)) or x is None:
        return x
    return str(x)


def load_known(prop):
    try:
        data = json.load(open(KNOWN_PATH))
    except FileNotFoundError:
        return []
    return [e for e in data.get('findings', []) if e.get('property') == prop and e.get('status') == 'open']


def match_known(sig, known):
    """An open finding matches iff every key of its signature equals the violation's."""
    for e in known:
        want = e.get('signature', {})
        if want and all(sig.get(k) == v for k, v in want.items()):
            return e
    return None


def execute(mod, choices=None, seed=None, by_label=None):
    """Run one simulated execution. Returns a result dict (never raises for run-level outcomes)."""
    from . import play
    if by_label is not None:
        ch = Chooser(by_label=by_label)
    else:
        ch = Chooser(seed=seed) if choices is None else Chooser(replay=choices)
    ctx = play.Ctx()
    res = {'ok': True, 'violation': None, 'aborted': None}
    with warnings.catch_warnings():
        warnings.simplefilter('ignore')
        try:
            mod.run(ch, ctx)
        except play.Violation as v:
            res['ok'] = False
            res['violation'] = {'kind': 'violation', 'monitor': v.monitor, 'message': v.message,
                                'sig': dict(v.sig, monitor=v.monitor)}
        except play.EngineCrash as c:
            sig = {'monitor': 'engine_crash', 'exc': type(c.exc).__name__, 'where': c.where}
            sig.update(getattr(c, 'tags', {}))
            info = {'kind': 'crash', 'monitor': 'engine_crash', 'message': str(c), 'sig': sig}
            if getattr(mod, 'crash_is_violation', False):
                res['ok'] = False
                res['violation'] = info
            else:
                res['aborted'] = info
        except play.Stuck as s:
            info = {'kind': 'stuck', 'monitor': 'stuck', 'message': str(s), 'sig': {'monitor': 'stuck'}}
            if getattr(mod, 'crash_is_violation', False):
                res['ok'] = False
                res['violation'] = info
            else:
                res['aborted'] = info
        except Exception as e:      # noqa: BLE001
            # An exception that comes out of pokerkit itself while the scheduler or a monitor reads a public query or
            # property (can_*, *_index, pots, ...) is the engine's failure, not the harness's: a query must never raise.
            chain, x = [], e
            while x is not None and x not in chain:        # e.g. RuntimeError('generator raised StopIteration') <- StopIteration
                chain.append(x)
                x = x.__cause__ or x.__context__
            tb = None
            for x in chain:
                t = traceback.extract_tb(x.__traceback__)
                if t and '/pokerkit/' in t[-1].filename and '/verif/' not in t[-1].filename:
                    tb, e = t, x
                    break
            if tb is None:
                raise
            caller = next((fr.name for fr in reversed(tb) if '/pokerkit/' not in fr.filename), '?')
            info = {'kind': 'crash', 'monitor': 'engine_crash',
                    'message': f'{type(e).__name__}: {e} raised by {tb[-1].name} (pokerkit) while the simulator evaluated a public '
                               f'query or property in {caller}',
                    'sig': {'monitor': 'engine_crash', 'exc': type(e).__name__, 'where': tb[-1].name, 'in_query': True}}
            ctx.notes.setdefault('query_crash', traceback.format_exc()[-1500:])
            if getattr(mod, 'crash_is_violation', False) or getattr(mod, 'query_crash_is_violation', False):
                res['ok'] = False
                res['violation'] = info
            else:
                res['aborted'] = info
    res['choices'] = ch.values
    res['labelled'] = ch.labelled
    res['grouped'] = ch.grouped
    res['counts'] = ctx.counts
    res['faults'] = ctx.faults
    res['nontrivial'] = ctx.nontrivial
    res['shape'] = hashlib.blake2b(repr(ctx.shape).encode(), digest_size=8).hexdigest()
    res['sample'] = ctx.sample
    res['notes'] = ctx.notes
    res['tags'] = ctx.tags
    res['digest'] = int.from_bytes(hashlib.blake2b(repr((ch.values, ctx.shape, sorted(ctx.counts.items()),
                                                         res['violation'] and res['violation']['sig'],
                                                         res['aborted'] and res['aborted']['sig'])).encode(),
                                                   digest_size=8).digest(), 'big')
    return res


def _worker(args):
    modname, base_seed, runs, deadline = args
    faulthandler.dump_traceback_later(max(60, deadline - time.time() + 120), exit=True)
    mod = __import__(modname, fromlist=['x'])
    out = {'done': 0, 'counts': {}, 'faults': {}, 'shapes': set(), 'nontrivial': 0, 'violations': [],
           'aborted': {}, 'samples': [], 'abort_examples': {}, 'harness': None, 'choices_total': 0, 'digest': 0,
           'tags': set()}
    for r in runs:
        if time.time() > deadline:
            break
        seed = derive_seed(base_seed, mod.ID, r)
        try:
            res = execute(mod, seed=seed)
        except Exception:           # noqa: BLE001 - a bug in the harness, not a verdict
            out['harness'] = {'run': r, 'trace': traceback.format_exc()}
            break
        out['done'] += 1
        out['digest'] = (out['digest'] + res['digest']) % (1 << 64)
        out['choices_total'] += len(res['choices'])
        out['tags'] |= res['tags']
        for k, v in res['counts'].items():
            out['counts'][k] = out['counts'].get(k, 0) + v
        for k, v in res['faults'].items():
            out['faults'][k] = out['faults'].get(k, 0) + v
        if res['nontrivial']:
            out['nontrivial'] += 1
            out['shapes'].add(res['shape'])
        if res['sample'] is not None and len(out['samples']) < 2:
            out['samples'].append(res['sample'])
        if res['aborted']:
            key = json.dumps(res['aborted']['sig'], sort_keys=True)
            out['aborted'][key] = out['aborted'].get(key, 0) + 1
            out['abort_examples'].setdefault(key, {'run': r, 'message': res['aborted']['message']})
        if res['violation']:
            if len(out['violations']) < 40:
                out['violations'].append({'run': r, 'seed': seed, 'info': res['violation'],
                                          'choices': res['choices']})
    faulthandler.cancel_dump_traceback_later()
    return out


def same_class(a, b):
    return a['sig'] == b['sig']


def minimise(mod, choices, info, budget_s=30, max_exec=160):
    """Shrink a failing choice list while the same violation class persists."""
    scale = float(os.environ.get('VERIF_MINIMISE_SCALE', '1') or 1)
    budget_s, max_exec = budget_s * scale, int(max_exec * scale)
    t0 = time.time()
    n_exec = 0
    best = list(choices)

    def fails(cand):
        nonlocal n_exec
        if n_exec >= max_exec or time.time() - t0 > budget_s:
            return False
        n_exec += 1
        try:
            r = execute(mod, choices=cand)
        except Exception:       # noqa: BLE001
            return False
        return r['violation'] is not None and same_class(r['violation'], info)

    # the recorded list replays itself?
    if not fails(best):
        return best, {'executions': n_exec, 'note': 'original list did not reproduce under replay'}
    # 1. truncate tail (exhausted list -> zeros = simplest choices)
    lo, hi = 0, len(best)
    while lo < hi:
        mid = (lo + hi) // 2
        if fails(best[:mid]):
            hi = mid
        else:
            lo = mid + 1
    best = best[:hi]
    # 2. delete blocks
    size = 32
    while size >= 1:
        i = 0
        while i < len(best):
            cand = best[:i] + best[i + size:]
            if len(cand) < len(best) and fails(cand):
                best = cand
            else:
                i += size
        size //= 2
    # 3. zero, then lower single values
    for i in range(len(best)):
        if best[i] != 0:
            cand = best[:i] + [0] + best[i + 1:]
            if fails(cand):
                best = cand
                continue
            v = best[i]
            lo2, hi2 = 0, v
            while hi2 - lo2 > 1 and v < 10**6:
                mid = (lo2 + hi2) // 2
                cand = best[:i] + [mid] + best[i + 1:]
                if fails(cand):
                    hi2 = mid
                    best = cand
                else:
                    lo2 = mid
    while best and best[-1] == 0:
        cand = best[:-1]
        if fails(cand):
            best = cand
        else:
            break
    return best, {'executions': n_exec, 'seconds': round(time.time() - t0, 2)}


def distinct_by_kind(tags):
    out = {}
    for t in tags:
        k = t.split(':', 1)[0]
        out[k] = out.get(k, 0) + 1
    return dict(sorted(out.items()))


def minimise_by_label(mod, groups, info, budget_s=90, max_exec=700):
    """Second minimisation stage, on the label-keyed form of the choices ({label: [values]}): whole labels to
    zero, shortest failing prefix per label, then single values to zero / lower.  Returns (groups, stats)."""
    scale = float(os.environ.get('VERIF_MINIMISE_SCALE', '1') or 1)
    budget_s, max_exec = budget_s * scale, int(max_exec * scale)
    t0 = time.time()
    n_exec = 0
    best = {k: list(v) for k, v in groups.items()}

    def fails(cand):
        nonlocal n_exec
        if n_exec >= max_exec or time.time() - t0 > budget_s:
            return False
        n_exec += 1
        try:
            r = execute(mod, by_label=cand)
        except Exception:       # noqa: BLE001
            return False
        return r['violation'] is not None and same_class(r['violation'], info)

    def size(g):
        return sum(1 for v in g.values() for x in v if x)

    if not fails(best):
        return None, {'executions': n_exec, 'note': 'label-keyed form did not reproduce'}
    before = size(best)
    for _round in range(2):
        # 1. a whole label to zero (configuration labels come first: fewer players, plain blinds, int chips, ...)
        for label in list(best):
            if any(best[label]):
                cand = dict(best)
                cand[label] = []
                if fails(cand):
                    best = cand
        # 2. shortest prefix of each label (the rest exhausted = simplest choices)
        for label in list(best):
            vals = best[label]
            if len(vals) <= 1:
                continue
            lo, hi = 0, len(vals)
            while lo < hi:
                mid = (lo + hi) // 2
                cand = dict(best)
                cand[label] = vals[:mid]
                if fails(cand):
                    hi = mid
                else:
                    lo = mid + 1
            if hi < len(vals):
                cand = dict(best)
                cand[label] = vals[:hi]
                if fails(cand):
                    best = cand
        # 3. single values: zero, then halve
        for label in list(best):
            for i in range(len(best[label])):
                v = best[label][i]
                if not v:
                    continue
                for nv in (0, v // 2, v - 1):
                    if nv == v:
                        continue
                    cand = dict(best)
                    cand[label] = best[label][:i] + [nv] + best[label][i + 1:]
                    if fails(cand):
                        best = cand
                        break
        if n_exec >= max_exec or time.time() - t0 > budget_s:
            break
    best = {k: v for k, v in best.items() if any(v)}
    return best, {'executions': n_exec, 'seconds': round(time.time() - t0, 2), 'nonzero_choices_before': before,
                  'nonzero_choices_after': size(best)}


def git_id(path):
    try:
        return subprocess.run(['git', '-C', path, 'rev-parse', '--short', 'HEAD'], capture_output=True,
                              text=True, timeout=10).stdout.strip()
    except Exception:       # noqa: BLE001
        return '?'


def write_replay(mod, seed, run, info, original, minimal, min_stats):
    rdir = os.environ.get('VERIF_REPLAY_DIR') or os.path.join(VERIF, 'replays')
    os.makedirs(rdir, exist_ok=True)
    res = execute(mod, choices=minimal)
    by_label, lstats = minimise_by_label(mod, res['grouped'](), info)
    if by_label is not None:
        res = execute(mod, by_label=by_label)
    path = os.path.join(rdir, f'{mod.ID}-{seed}-{run}.json')
    doc = {
        'property': mod.ID, 'verif_seed': seed, 'run': run,
        'violation': info,
        'choices': minimal,
        'choices_by_label': by_label,
        'minimisation_by_label': lstats,
        'choices_labelled': res['labelled'](),
        'original_choices': original,
        'minimisation': min_stats,
        'trace': jsonable(res['notes']),
        'reproduced_on_write': res['violation'] is not None and same_class(res['violation'], info),
        'repo_commit': git_id(boot.ROOT), 'verif_commit': git_id(VERIF),
        'pokerkit_root': boot.ROOT,
    }
    with open(path, 'w') as f:
        json.dump(jsonable(doc), f, indent=1)
    return path


def replay(mod, path):
    doc = json.load(open(path))
    if doc.get('choices_by_label') is not None:
        res = execute(mod, by_label=doc['choices_by_label'])       # the minimised, label-keyed form
    else:
        res = execute(mod, choices=doc['choices'])
    v = res['violation']
    if v is None:
        print(f'REPLAY property={mod.ID} no violation reproduced (the tree under test may have changed)')
        print(json.dumps(jsonable(res['notes']), indent=1)[:4000])
        return 0
    same = same_class(v, doc['violation'])
    print(f'REPLAY property={mod.ID} reproduced={"same" if same else "different"} class')
    print(v['message'])
    print(json.dumps(jsonable(res['notes']), indent=1)[:6000])
    print(f'VIOLATION property={mod.ID} replay={path}')
    return 1


def main(mod, argv=None):
    ap = argparse.ArgumentParser()
    ap.add_argument('--tier', default=os.environ.get('VERIF_TIER', 'quick'), choices=('quick', 'thorough'))
    ap.add_argument('--replay')
    ap.add_argument('--runs', type=int)
    ap.add_argument('--budget', type=float, help='wall-clock cap in seconds for the batch')
    ap.add_argument('--workers', type=int, default=int(os.environ.get('VERIF_WORKERS', '0')) or (os.cpu_count() or 4))
    ap.add_argument('--one', type=int, help='run a single run number in-process and print its notes')
    ap.add_argument('--digest-choices', help='execute the choice list in this JSON file and print its RUN-DIGEST line')
    args = ap.parse_args(argv)
    seed = int(os.environ.get('VERIF_SEED', '0') or 0)
    if args.replay:
        return replay(mod, args.replay)
    if args.digest_choices:
        res = execute(mod, choices=json.load(open(args.digest_choices)))
        print('RUN-DIGEST', res['notes'].get('run_digest'), 'ok' if res['ok'] and not res['aborted'] else 'notok', flush=True)
        return 0
    if args.one is not None:
        res = execute(mod, seed=derive_seed(seed, mod.ID, args.one))
        print(json.dumps(jsonable({k: res[k] for k in ('ok', 'violation', 'aborted', 'counts', 'notes')}), indent=1))
        return 0 if res['ok'] else 1
    t0 = time.time()
    tier = args.tier
    runs = args.runs or (mod.QUICK_RUNS if tier == 'quick' else mod.THOROUGH_RUNS)
    budget = args.budget or (getattr(mod, 'QUICK_BUDGET', 150) if tier == 'quick' else getattr(mod, 'THOROUGH_BUDGET', 3000))
    deadline = t0 + budget
    workers = max(1, args.workers)
    chunk = max(1, min(200, runs // (workers * 8) or 1))
    chunks = [list(range(i, min(runs, i + chunk))) for i in range(0, runs, chunk)]
    print(f'[{mod.ID}] VERIF_SEED={seed} tier={tier} runs={runs} workers={workers} pokerkit={boot.ROOT}', flush=True)
    agg = {'done': 0, 'counts': {}, 'faults': {}, 'shapes': set(), 'nontrivial': 0, 'violations': [],
           'aborted': {}, 'samples': [], 'abort_examples': {}, 'choices_total': 0, 'digest': 0, 'tags': set()}
    harness = None
    ctxmp = multiprocessing.get_context('fork')
    fast_fail = bool(os.environ.get('VERIF_FAST_FAIL'))
    known_ff = load_known(mod.ID)
    with ProcessPoolExecutor(max_workers=workers, mp_context=ctxmp) as ex:
        futs = [ex.submit(_worker, (mod.__name__, seed, c, deadline)) for c in chunks]
        for f in as_completed(futs):
            if f.cancelled():
                continue
            try:
                out = f.result()
            except Exception as e:      # noqa: BLE001 - dead worker / timeout
                harness = {'trace': f'worker failed: {type(e).__name__}: {e}'}
                continue
            if out['harness'] and harness is None:
                harness = out['harness']
            agg['done'] += out['done']
            agg['digest'] = (agg['digest'] + out['digest']) % (1 << 64)
            agg['nontrivial'] += out['nontrivial']
            agg['choices_total'] += out['choices_total']
            agg['shapes'] |= out['shapes']
            agg['tags'] |= out['tags']
            for k in ('counts', 'faults', 'aborted'):
                for kk, v in out[k].items():
                    agg[k][kk] = agg[k].get(kk, 0) + v
            for kk, v in out['abort_examples'].items():
                agg['abort_examples'].setdefault(kk, v)
            agg['violations'] += out['violations']
            if fast_fail and any(match_known(v['info']['sig'], known_ff) is None for v in out['violations']):
                for g in futs:
                    g.cancel()          # sensitivity runs only need the first fresh violation
            if len(agg['samples']) < 3:
                agg['samples'] += out['samples'][:3 - len(agg['samples'])]
    wall = time.time() - t0
    if harness is not None:
        print(f'HARNESS-ERROR property={mod.ID} run={harness.get("run")}\n{harness.get("trace")}', flush=True)
        return 2
    known = load_known(mod.ID)
    known_hits = {}
    fresh = []
    for v in sorted(agg['violations'], key=lambda v: v['run']):
        e = match_known(v['info']['sig'], known)
        if e is not None:
            known_hits[e['id']] = known_hits.get(e['id'], 0) + 1
        else:
            fresh.append(v)
    for e in known:
        print(f'KNOWN-FINDING: property={mod.ID} {e["id"]}: {e["description"]} (seen {known_hits.get(e["id"], 0)}x in this batch)')
    replay_path = None
    if fresh:
        v = fresh[0]
        minimal, mstats = minimise(mod, v['choices'], v['info'])
        replay_path = write_replay(mod, seed, v['run'], v['info'], v['choices'], minimal, mstats)
    evidence = {
        'property_id': mod.ID, 'tier': tier, 'seed': seed, 'level': mod.LEVEL,
        'coverage': {
            'evaluations': agg['done'],
            'distinct_nontrivial': len(agg['shapes']),
            'rule': mod.RULE,
            'samples': jsonable(agg['samples']) or ['(no sample recorded)'],
            'nontrivial_runs': agg['nontrivial'],
            'runs_requested': runs,
            'runs_per_hour': int(agg['done'] / max(wall, 1e-9) * 3600),
            'simulated_time': {'unit': 'logical ticks (scheduler decisions) and logged operations; pokerkit has no clock',
                               'ticks': agg['counts'].get('ticks', 0), 'operations': agg['counts'].get('operations', 0),
                               'choices_drawn': agg['choices_total']},
            'faults_fired': agg['faults'],
            'probes': {k: v for k, v in sorted(agg['counts'].items())},
            'distinct_values_reached': distinct_by_kind(agg['tags']),
            'aborted_runs': {k: v for k, v in agg['aborted'].items()},
            'aborted_examples': agg['abort_examples'],
            'known_findings_seen': known_hits,
            'components': getattr(mod, 'COMPONENTS', {}),
            'workers': workers,
            'batch_digest': '%016x' % agg['digest'],
            'pythonhashseed': os.environ.get('PYTHONHASHSEED'),
            'exhaustive': False,
        },
        'assumptions': list(mod.ASSUMPTIONS),
        'wall_s': round(wall, 2),
        'violations': len(fresh),
    }
    edir = os.environ.get('VERIF_EVIDENCE_DIR') or os.path.join(VERIF, 'evidence')
    os.makedirs(edir, exist_ok=True)
    with open(os.path.join(edir, f'{mod.ID}.json'), 'w') as f:
        json.dump(jsonable(evidence), f, indent=1)
    print(f'[{mod.ID}] runs={agg["done"]}/{runs} nontrivial={agg["nontrivial"]} distinct={len(agg["shapes"])} '
          f'aborted={sum(agg["aborted"].values())} violations={len(fresh)} known={sum(known_hits.values())} digest={agg["digest"]:016x} wall={wall:.1f}s', flush=True)
    if agg['done'] == 0:
        print(f'HARNESS-ERROR property={mod.ID} no run completed')
        return 2
    if fresh:
        print(fresh[0]['info']['message'])
        print(f'VIOLATION property={mod.ID} replay={replay_path}')
        return 1
    return 0
