"""Deep, comparable snapshots of a State and re-application of logged operations through the public API."""
from __future__ import annotations
import dataclasses

from . import boot

pk = boot.boot()
import pokerkit.state as S  # noqa: E402

SKIP_ALWAYS = ('divmod', 'rake')


def snapshot(st, exclude=()):
    """Tuple of (field, repr(value)) over all dataclass fields (private bookkeeping included)."""
    out = []
    for f in dataclasses.fields(st):
        if f.name in SKIP_ALWAYS or f.name in exclude:
            continue
        v = getattr(st, f.name)
        if isinstance(v, (set, frozenset)):
            v = sorted(v)
        out.append((f.name, repr(v)))
    return tuple(out)


def diff(a, b):
    da, db = dict(a), dict(b)
    return [(k, da.get(k), db.get(k)) for k in da if da.get(k) != db.get(k)]


def derived(st):
    """Derived public queries that must also be unaffected by a refused request."""
    return (st.actor_index, st.turn_index, st.showdown_index, st.hole_dealee_index, st.board_dealing_count,
            st.stander_pat_or_discarder_index, repr(list(st.pots)), st.total_pot_amount, st.status,
            st.checking_or_calling_amount, st.min_completion_betting_or_raising_to_amount,
            st.max_completion_betting_or_raising_to_amount)


def apply_record(st, op):
    """Re-apply one logged Operation to another state through the public API, with the recorded
    player, amount and cards (and commentary)."""
    c = op.commentary
    t = type(op).__name__
    if t == 'AntePosting':
        return st.post_ante(op.player_index, commentary=c)
    if t == 'BetCollection':
        return st.collect_bets(commentary=c)
    if t == 'BlindOrStraddlePosting':
        return st.post_blind_or_straddle(op.player_index, commentary=c)
    if t == 'CardBurning':
        return st.burn_card(op.card, commentary=c)
    if t == 'HoleDealing':
        return st.deal_hole(op.cards, op.player_index, commentary=c)
    if t == 'BoardDealing':
        return st.deal_board(op.cards, commentary=c)
    if t == 'StandingPatOrDiscarding':
        return st.stand_pat_or_discard(op.cards, commentary=c)
    if t == 'Folding':
        return st.fold(commentary=c)
    if t == 'CheckingOrCalling':
        return st.check_or_call(commentary=c)
    if t == 'BringInPosting':
        return st.post_bring_in(commentary=c)
    if t == 'CompletionBettingOrRaisingTo':
        return st.complete_bet_or_raise_to(op.amount, commentary=c)
    if t == 'RunoutCountSelection':
        return st.select_runout_count(op.runout_count, op.player_index, commentary=c)
    if t == 'HoleCardsShowingOrMucking':
        return st.show_or_muck_hole_cards(op.hole_cards if op.hole_cards else False, op.player_index, commentary=c)
    if t == 'HandKilling':
        return st.kill_hand(op.player_index, commentary=c)
    if t == 'ChipsPushing':
        return st.push_chips(commentary=c)
    if t == 'ChipsPulling':
        return st.pull_chips(op.player_index, commentary=c)
    if t == 'NoOperation':
        return st.no_operate(commentary=c)
    raise TypeError(op)
