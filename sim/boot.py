"""Process bootstrap: pins hash order, owns the randomness seam, imports pokerkit from the tree under test.

Must be imported (and `boot()` called) before anything imports pokerkit, because
pokerkit does `from random import shuffle` at import time: replacing
`random.shuffle` first makes every module-level binding point at the simulator's
keyed shuffle.  Nothing in /repo is edited for this.
"""
from __future__ import annotations
import hashlib
import os
import random
import sys

ROOT = os.environ.get('POKERKIT_ROOT', '/repo')
_RUN_KEY = b'unset'
SHUFFLE_CALLS = 0
_BOOTED = False


SIM_RNG = random.Random(0)          # owned by the simulator: backs random.choices / random.sample (pokerkit.analysis)
RNG_DRAWS = 0


def set_run_key(key: str) -> None:
    """All "randomness" the engine sees in this run is a pure function of this key."""
    global _RUN_KEY
    _RUN_KEY = key.encode()
    SIM_RNG.seed(int.from_bytes(hashlib.blake2b(_RUN_KEY, digest_size=8).digest(), 'big'))


def sim_choices(population, weights=None, *, cum_weights=None, k=1):
    global RNG_DRAWS
    RNG_DRAWS += 1
    return SIM_RNG.choices(population, weights, cum_weights=cum_weights, k=k)


def sim_sample(population, k, *, counts=None):
    global RNG_DRAWS
    RNG_DRAWS += 1
    return SIM_RNG.sample(population, k, counts=counts)


def keyed_shuffle(x) -> None:
    """Deterministic permutation: order = sort by H(run key, repr(item), occurrence#).

    A pure function of (run key, multiset of items): the extra shuffles caused by
    can_*/verify_* queries (get_dealable_cards -> shuffled) cannot perturb later
    deals, and twin runs see the same deck whatever they query.
    """
    global SHUFFLE_CALLS
    SHUFFLE_CALLS += 1
    items = list(x)
    seen: dict[str, int] = {}
    keyed = []
    for it in items:
        r = repr(it)
        k = seen.get(r, 0)
        seen[r] = k + 1
        keyed.append((hashlib.blake2b(_RUN_KEY + b'|' + r.encode() + b'|%d' % k, digest_size=12).digest(), it))
    keyed.sort(key=lambda p: p[0])
    out = [p[1] for p in keyed]
    if isinstance(x, list):
        x[:] = out
    else:       # deque
        x.clear()
        x.extend(out)


def ensure_hashseed() -> None:
    """Re-exec the interpreter with PYTHONHASHSEED=0 unless a hash seed is already pinned."""
    if os.environ.get('PYTHONHASHSEED') is None:
        env = dict(os.environ, PYTHONHASHSEED='0')
        os.execve(sys.executable, [sys.executable] + sys.argv, env)


def boot():
    """Install the seams and import pokerkit from ROOT. Returns the pokerkit package."""
    global _BOOTED
    if not _BOOTED:
        assert 'pokerkit' not in sys.modules, 'boot() must run before pokerkit is imported'
        random.shuffle = keyed_shuffle
        random.choices = sim_choices
        random.sample = sim_sample
        if ROOT in sys.path:
            sys.path.remove(ROOT)
        sys.path.insert(0, ROOT)
        sys.dont_write_bytecode = True      # never litter the tree under test
    import pokerkit
    import pokerkit.state
    import pokerkit.utilities
    got = os.path.realpath(os.path.dirname(os.path.dirname(pokerkit.__file__)))
    want = os.path.realpath(ROOT)
    assert got == want, f'pokerkit imported from {got}, expected {want}'
    for mod in (pokerkit.state, pokerkit.utilities):
        if getattr(mod, 'shuffle', None) is not keyed_shuffle:
            mod.shuffle = keyed_shuffle
    import pokerkit.analysis
    if getattr(pokerkit.analysis, 'choices', None) is not sim_choices:
        pokerkit.analysis.choices = sim_choices
    if getattr(pokerkit.analysis, 'sample', None) is not sim_sample:
        pokerkit.analysis.sample = sim_sample
    _BOOTED = True
    return pokerkit
