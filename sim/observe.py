"""Observation seam: every Operation appended to any State, including those fired inside
the constructor and inside automation cascades, through a run-time wrap of State._update.
No edit of /repo.  If the private method disappears in a refactor, `install()` reports it and
the checks fall back to observing at public-call boundaries (evidence says which).
"""
from __future__ import annotations

_HOOK = None
INSTALLED = False
MODE = 'uninstalled'


def install(pokerkit) -> str:
    global INSTALLED, MODE
    if INSTALLED:
        return MODE
    State = pokerkit.state.State
    orig = getattr(State, '_update', None)
    if orig is None:
        MODE = 'public-call-boundaries'
        INSTALLED = True
        return MODE

    def _update(self, operation=None):
        orig(self, operation)
        if operation is not None and _HOOK is not None:
            _HOOK(self, operation)

    State._update = _update
    INSTALLED = True
    MODE = 'per-operation'
    return MODE


class session:
    """with observe.session(callback): ... ; callback(state, operation) after each logged operation."""

    def __init__(self, hook):
        self.hook = hook

    def __enter__(self):
        global _HOOK
        self.prev = _HOOK
        _HOOK = self.hook
        return self

    def __exit__(self, *a):
        global _HOOK
        _HOOK = self.prev
        return False
