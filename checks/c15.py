"""C15 - the operation log is a faithful record; states are deterministic and copyable.  DESIGN.md section 5, C15."""
from __future__ import annotations
import copy

from .common import (COMPONENTS, EngineCrash, Monitor, Stuck, Violation, World, gen_config, note_trace,
                     run_key_of, std_finish, opseq, op_brief, digest)
from sim import boot
from sim.config import build
from sim.snapshot import apply_record, snapshot, diff

ID = 'C15'
LEVEL = 'fault_enumeration'
crash_is_violation = False
QUICK_RUNS = 9000
THOROUGH_RUNS = 250000
QUICK_BUDGET = 100
THOROUGH_BUDGET = 1500
RULE = ('one run = one simulated hand (any variant, any automation subset, commentary on some operations, in two thirds of the '
        'runs no-operations - notes in the log - between the steps: fault note_interleaved) plus, per '
        'sampled history: (a) crash -> rebuild-from-log at EVERY operation boundary: the records are re-applied through '
        'the public API to a fresh un-automated state built under a different deck order; after each record the '
        'returned record and the log prefix must equal the original, at every boundary where the original was quiescent '
        'the complete state must be equal, and at the end everything except deck order; (b) the same choices are run '
        'twice and must give identical logs and states - in half of the cases with an interfering table in between: another '
        'hand of the same variant with other parameters (bet sizes, stacks, mode, automations, rake) is created in the same '
        'process, played half-way and left alive while the original decisions are executed again, and in half of the cases '
        'with the second execution seated by the SAME game object after it has also seated a smaller table (values given '
        'as lists in a third of the runs); (c) forks: deep copies taken at scheduler-chosen quiescent points '
        '(up to 3) are advanced interleaved with the original - frozen forks must stay bit-identical, shadow forks fed '
        'the same decisions must stay equal to the original, divergent forks must not disturb anybody and must equal '
        'a sequential replay of their own log. non-trivial = history with >= 12 operations; distinct = distinct '
        '(configuration class, operation-class sequence, fork plan) digests. Crash points per history are enumerated '
        'completely; histories are sampled')
ASSUMPTIONS = [
    'the rebuilt state is created from the same game configuration (constructor arguments) as the original',
    'determinism across processes and hash seeds: one run in 150 is executed again in a fresh interpreter under another '
    'PYTHONHASHSEED (fault hash_seed); selftest/determinism.py measures whole batches',
    'deep copies are taken at quiescent points (between public calls), as game-tree construction does',
]
BIAS = dict(custom_num=1, rakes=('none', 'none', 'pct', 'nfnd'), allow_raw_lists=True)
UNORDERED = ('deck_cards',)


def state_equal(a, b, exclude=()):
    return not diff(snapshot(a, exclude), snapshot(b, exclude))


class Recorder(Monitor):
    """Remembers the full state at every boundary where the original was quiescent."""

    def __init__(self):
        self.quiescent = {}
        self.deck_len = None

    def on_op(self, world, st, op):
        n = len(st.deck_cards)
        if self.deck_len is not None and n > self.deck_len and not world.ctx.counts.get('deck_replenished'):
            world.ctx.count('deck_replenished')
        self.deck_len = n

    def on_quiescent(self, world):
        st = world.state
        self.quiescent[len(st.operations)] = snapshot(st, exclude=('automations',))


def rebuild_check(world, rec, ctx):
    st = world.state
    log = list(st.operations)
    boot.set_run_key(world.run_key + '-rebuilt')          # a different deck order: the log must carry the cards
    _, fresh = build(world.cfg, 0)
    boot.set_run_key(world.run_key)
    k0 = len(fresh.operations)
    if k0:
        raise Violation('C15.rebuild', f'a fresh un-automated state already has {k0} logged operations')
    for k, op in enumerate(log):
        try:
            got = apply_record(fresh, op)
        except Exception as e:      # noqa: BLE001
            raise Violation('C15.rebuild', f'crash point {k}: re-applying record {op_brief(op)} to a state rebuilt from '
                            f'the first {k} records failed: {type(e).__name__}: {e}', op=type(op).__name__)
        if got != op:
            raise Violation('C15.record', f'crash point {k + 1}: record {op_brief(op)} re-applied gives {op_brief(got)}',
                            op=type(op).__name__)
        if len(fresh.operations) != k + 1 or fresh.operations[k] != op:
            raise Violation('C15.record', f'crash point {k + 1}: rebuilt log has {len(fresh.operations)} records after '
                            f're-applying {k + 1}; last {op_brief(fresh.operations[-1])}', op=type(op).__name__)
        ctx.count('crash_points')
        want = rec.quiescent.get(k + 1)
        if want is not None:
            have = snapshot(fresh, exclude=('automations',) + UNORDERED)
            d = diff(tuple(x for x in want if x[0] not in UNORDERED), have)
            if d:
                raise Violation('C15.rebuild', f'crash point {k + 1}: state rebuilt from the log differs from the '
                                f'original in {[x[0] for x in d]}: {d[:2]}', fields=tuple(sorted(x[0] for x in d)))
            if sorted(map(repr, fresh.deck_cards)) != sorted(map(repr, dict(want).get('deck_cards') and eval_deck(want))):
                pass
            ctx.count('state_compared_points')
    if fresh.status != st.status:
        raise Violation('C15.rebuild', 'rebuilt state and original disagree on whether the hand is over')
    if sorted(map(repr, fresh.deck_cards)) != sorted(map(repr, st.deck_cards)):
        raise Violation('C15.rebuild', 'rebuilt state holds different undealt cards than the original')
    ctx.fault('crash_log', len(log))


def eval_deck(want):
    return []


class Fork:
    def __init__(self, kind, world, at):
        self.kind = kind
        self.world = world
        self.at = at
        self.queue = []
        self.frozen = snapshot(world.state)
        self.alive = True


def run(ch, ctx):
    cfg = gen_config(ch, BIAS)
    rec = Recorder()
    world = None
    run_key = run_key_of(ch)
    plan = ch.weighted('c15.plan', (3, 2, 4))        # 0: rebuild only, 1: + run twice, 2: + forks
    chat = ch.choice('c15.chatter', (0, 2, 4))       # no-operations (notes in the log) between the steps
    forks = []
    try:
        world = World(ch, ctx, cfg, [rec], run_key=run_key, commentary_num=2, chatter_num=chat)
        world.run_key = run_key
        world.unknown_burns = ch.chance('c15.unknown_burns', 1, 3)       # records then carry unknown Card objects
        if plan < 2:
            world.run()
        else:
            run_with_forks(ch, ctx, world, forks)
    except (Violation, EngineCrash, Stuck):
        if world is not None:
            note_trace(world, ctx)
            ctx.notes['forks'] = [(f.kind, f.at) for f in forks]
        else:
            ctx.notes['config'] = cfg
        raise
    st = world.state
    try:
        rebuild_check(world, rec, ctx)
        for f in forks:
            if f.kind == 'divergent':
                w2 = f.world
                w2.run_key = run_key
                w2.cfg = cfg
                rec2 = Recorder()
                rebuild_check(w2, rec2, ctx)
        if plan == 1:
            twice(ch, ctx, world, cfg, run_key)
    except Violation:
        note_trace(world, ctx)
        ctx.notes['forks'] = [(f.kind, f.at) for f in forks]
        raise
    ctx.count('forks_taken', len(forks))
    for f in forks:
        ctx.count('fork_' + f.kind)
    std_finish(world, ctx, len(st.operations) >= 12)
    ctx.notes['run_digest'] = digest([op_brief(op) for op in st.operations], snapshot(st, exclude=('deck_cards',)))
    other_hash_seed(ch, ctx)
    ctx.shape.append((plan, tuple((f.kind, f.at) for f in forks)))


def other_hash_seed(ch, ctx):
    """Fault hash_seed: the whole run is executed again in a FRESH interpreter under another PYTHONHASHSEED (the checks
    themselves run under 0) and must produce the same operation log and final state - the engine must not depend on the
    iteration order of a set or dict of hashed objects."""
    import json
    import os
    import subprocess
    import sys
    import tempfile
    num = 30 if ctx.counts.get('deck_replenished') else 1      # a replenish reorders cards: the place for hash-order bugs
    if os.environ.get('C15_CHILD') or not ch.chance('c15.hash_seed', num, 150):
        return
    seed = 1 + ch.pick('c15.hash_seed.value', 1000)
    here = os.path.dirname(os.path.dirname(os.path.abspath(__file__)))
    with tempfile.NamedTemporaryFile('w', suffix='.json', delete=False) as f:
        json.dump(list(ch.values), f)
        path = f.name
    try:
        env = dict(os.environ, PYTHONHASHSEED=str(seed), C15_CHILD='1')
        out = subprocess.run([sys.executable, os.path.join(here, 'run_check.py'), 'C15', '--digest-choices', path],
                             capture_output=True, text=True, env=env, timeout=120)
    finally:
        os.unlink(path)
    line = next((l for l in out.stdout.splitlines() if l.startswith('RUN-DIGEST')), None)
    ctx.fault('hash_seed')
    if line is None:
        raise Violation('C15.hash_seed', f'the run could not be executed under PYTHONHASHSEED={seed}: {out.stderr[-400:]}')
    if line.split()[1] != ctx.notes['run_digest']:
        raise Violation('C15.hash_seed', f'the same choices and deck order give another operation log or final state under '
                        f'PYTHONHASHSEED={seed} than under {os.environ.get("PYTHONHASHSEED")} (digests {line.split()[1]} vs '
                        f'{ctx.notes["run_digest"]})')


def twice(ch, ctx, world, cfg, run_key):
    """Same choices, same deck order: a second execution must give the identical log and state."""
    from sim.chooser import Chooser
    from sim.play import Ctx
    ch2 = Chooser(replay=list(ch.values))
    ctx2 = Ctx()
    cfg2 = gen_config(ch2, BIAS)
    assert cfg2 == cfg
    rk = run_key_of(ch2)
    ch2.weighted('c15.plan', (3, 2, 4))
    chat = ch2.choice('c15.chatter', (0, 2, 4))
    other = None
    if ch.chance('c15.interfere', 1, 2):
        # fault "interfering table": between the two executions another hand of the SAME variant with OTHER parameters is
        # created in this process, played half-way and left alive - state that leaks between State objects through a class
        # attribute, a shared default or a cache keyed too coarsely makes the second execution differ from the first
        other = interfering_table(ch, ctx, cfg, run_key)
    reuse = None
    if world.game is not None and ch.chance('c15.reuse_game', 1, 2):
        # the second execution sits down at a table created from the SAME game object as the first, after that game has
        # also seated a smaller table (a game object is documented as a reusable factory of states)
        reuse = world.game
        m = cfg['n'] - 1
        if m >= 2:
            from sim.config import conv_stack
            small = [conv_stack(cfg, x) for x in cfg['stacks'][:m]]
            try:
                boot.set_run_key(run_key + '-small')
                reuse(small if cfg.get('raw_lists') else tuple(small), m)
            except Exception:       # noqa: BLE001 - e.g. a blind layout that needs all n seats
                pass
            boot.set_run_key(run_key)
        ctx.fault('game_reused')
    w2 = World(ch2, ctx2, cfg2, [], run_key=rk, commentary_num=2, reuse_game=reuse, chatter_num=chat)
    w2.unknown_burns = ch2.chance('c15.unknown_burns', 1, 3)        # (the same draw as in the first execution)
    w2.run()
    if other is not None:
        boot.set_run_key(other.run_key)
        try:
            other.run()
        except (EngineCrash, Stuck):
            pass
        boot.set_run_key(run_key)
    if w2.state.operations != world.state.operations:
        raise Violation('C15.determinism', 'the same decisions and deck order gave a different operation log')
    d = diff(snapshot(world.state), snapshot(w2.state))
    if d:
        raise Violation('C15.determinism', f'the same decisions and deck order gave a different state: {[x[0] for x in d]}')
    ctx.count('run_twice')


def interfering_table(ch, ctx, cfg, run_key):
    from sim.config import PREDEFINED
    c = dict(cfg)
    if c['variant'] in PREDEFINED and ch.chance('intf.sibling', 1, 2):
        # a sibling variant of the same family (shared base classes and mixins in games.py)
        fam = [k for k, v in PREDEFINED.items() if v[3] == PREDEFINED[c['variant']][3] and v[2] >= c['n']
               and (k != 'NR' or c['n'] <= 5)]
        c['variant'] = ch.choice('intf.variant', fam)
        if c['variant'] in ('NS', 'NR'):
            c['sbc'] = 1
    c['bb'] = ch.choice('intf.bb', (2, 4, 10))
    if c['variant'] in PREDEFINED and PREDEFINED[c['variant']][1] != 'minbet':
        c['big_mult'] = ch.choice('intf.big_mult', (1, 2, 3))
    c['stacks'] = [ch.choice('intf.stack', (2, 5, 20, 40, 100)) for _ in range(c['n'])]
    c['autos'] = ch.pick('intf.autos', 1 << 11)
    c['mode'] = ('tournament', 'cash')[ch.pick('intf.mode', 2)]
    c['ats'] = bool(ch.pick('intf.ats', 2))
    c['antes'] = ch.choice('intf.antes', (0, 1, 2))
    if c.get('blinds'):
        h = c['bb'] // 2
        c['blinds'] = [h, c['bb']]
    if c.get('bring_in'):
        c['bring_in'] = 1 if c['antes'] else 1
    c['rake'] = ch.choice('intf.rake', ('none', 'pct'))
    if c['chip'] in ('float', 'decimal') and c['rake'] != 'none':
        c['rake'] = 'none'
    from sim.play import Ctx
    try:
        w = World(ch, Ctx(), c, [], run_key=run_key + '-intf', profile='balanced')
    except EngineCrash:
        boot.set_run_key(run_key)
        return None
    ctx.fault('interfering_table')
    try:
        for _ in range(ch.pick('intf.steps', 25)):
            if not w.state.status or w.step() is None:
                break
    except (EngineCrash, Stuck):
        pass
    boot.set_run_key(run_key)
    return w


def run_with_forks(ch, ctx, world, forks):
    st = world.state
    worlds = [world]
    while True:
        alive = [w for w in worlds if w.state.status]
        pending_shadow = [f for f in forks if f.kind == 'shadow' and f.queue]
        if not alive and not pending_shadow:
            break
        # maybe fork the original here (quiescent point)
        if st.status and len(forks) < 3 and ch.chance('c15.fork', 1, 12):
            kind = ch.choice('c15.fork.kind', ('frozen', 'shadow', 'divergent'))
            clone = copy.deepcopy(st)
            if not state_equal(clone, st):
                raise Violation('C15.copy', f'a deep copy differs from the original right after copying: '
                                f'{[x[0] for x in diff(snapshot(st), snapshot(clone))]}')
            fw = World(ch, ctx, world.cfg, [], adopt=clone, profile=world.profile_name, dealer=world.dealer,
                       chatter_num=world.chatter_num)
            fw.n = world.n
            fw.tick_cap = world.tick_cap
            f = Fork(kind, fw, len(st.operations))
            forks.append(f)
            ctx.fault('fork')
            if kind == 'divergent':
                worlds.append(fw)
        # choose who moves
        movers = [('w', w) for w in worlds if w.state.status] + [('s', f) for f in pending_shadow]
        tag, who = movers[ch.pick('c15.mover', len(movers))]
        before = {id(w): snapshot(w.state) for w in worlds}
        before_f = {id(f): snapshot(f.world.state) for f in forks}
        if tag == 'w':
            if who.ticks > who.tick_cap:
                raise Stuck('tick cap exceeded')
            nd = len(who.decisions)
            if who.step() is None:
                raise Stuck('no operation available while the hand is not over')
            if who is world:
                for f in forks:
                    if f.kind == 'shadow':
                        f.queue.extend(world.decisions[nd:])
            moved_state = who.state
        else:
            d = who.queue.pop(0)
            kw = d[2] if len(d) > 2 else {}
            who.world.commentary_num = 0
            who.world.apply(d[0], *d[1], **kw)
            moved_state = who.world.state
        # nobody else may have changed
        for w in worlds:
            if w.state is not moved_state and snapshot(w.state) != before[id(w)]:
                raise Violation('C15.isolation', 'operating on one state changed another (original or fork) '
                                f'in {[x[0] for x in diff(before[id(w)], snapshot(w.state))]}')
        for f in forks:
            if f.world.state is not moved_state and snapshot(f.world.state) != before_f[id(f)]:
                raise Violation('C15.isolation', f'operating on one state changed a {f.kind} fork taken at {f.at} '
                                f'in {[x[0] for x in diff(before_f[id(f)], snapshot(f.world.state))]}')
    for m in world.monitors:
        m.on_end(world)
    for f in forks:
        if f.kind == 'frozen' and snapshot(f.world.state) != f.frozen:
            raise Violation('C15.isolation', f'a fork taken at {f.at} and never touched changed while the original went on')
        if f.kind == 'shadow':
            d = diff(snapshot(world.state), snapshot(f.world.state))
            if d:
                raise Violation('C15.copy', f'a fork taken at {f.at} and fed the same decisions ended in a different '
                                f'state: {[x[0] for x in d]}')
