"""C07 - every hand runs to completion through the documented phases.  DESIGN.md section 5, C07."""
from __future__ import annotations
import dataclasses

from .common import (COMPONENTS, EngineCrash, Monitor, Stuck, Violation, World, gen_config, note_trace, OPCODE,
                     run_key_of, std_finish, opseq)

ID = 'C07'
LEVEL = 'exploration'
crash_is_violation = True
QUICK_RUNS = 24000
THOROUGH_RUNS = 600000
QUICK_BUDGET = 100
THOROUGH_BUDGET = 1500
RULE = ('one run = one simulated hand under a random subset of the 11 automations (all 2^11 subsets reachable), every '
        'variant incl. user-defined street lists, every agent choice incl. voluntary mucks and unreasonable cash-game '
        'folds; monitors: enabled set of the 16 default-argument queries is non-empty and inside one phase while the '
        'hand is live and empty after, the operation-class sequence is accepted by the phase automaton, every public '
        'call changes the public state, the hand ends within a bound computed from the configuration, and no '
        'exception escapes a constructor with valid arguments or an operation whose query said yes. '
        'non-trivial = hand with >= 2 streets dealt or a showdown; distinct = distinct (configuration class incl. '
        'automation mask, operation-class sequence) digests')
ASSUMPTIONS = [
    'deck capacity rule: run-out counts are only chosen while the deck can physically serve them',
    'hands reaching a showdown are known; the only unknown card dealt in this check is one player\'s third-street door card '
    'in a stud game (fault unknown_door_card), and that player folds on third street',
    'K2 (every player mucks voluntarily at an all-in showdown before the last street) is listed in known_findings.json',
]
BIAS = dict(custom_num=1, rakes=('none', 'none', 'pct'))

GROUPS = {
    'ANTE': ('can_post_ante',),
    'COLLECT': ('can_collect_bets',),
    'BLIND': ('can_post_blind_or_straddle',),
    'DEAL': ('can_burn_card', 'can_deal_hole', 'can_deal_board', 'can_stand_pat_or_discard'),
    'BET': ('can_fold', 'can_check_or_call', 'can_post_bring_in', 'can_complete_bet_or_raise_to'),
    'SHOW': ('can_select_runout_count', 'can_show_or_muck_hole_cards'),
    'KILL': ('can_kill_hand',),
    'PUSH': ('can_push_chips',),
    'PULL': ('can_pull_chips',),
}
CLASS = {'a': 'ANTE', 'c': 'COLLECT', 'b': 'BLIND', 'u': 'DEAL', 'h': 'DEAL', 'd': 'DEAL', 'x': 'DEAL',
         'f': 'BET', 'k': 'BET', 'i': 'BET', 'r': 'BET', 'n': 'SHOW', 's': 'SHOW', 'l': 'KILL', 'p': 'PUSH',
         'q': 'PULL'}
# documented order: which operation class may directly follow which (START = nothing logged yet)
FOLLOW = {
    'START': {'ANTE', 'BLIND', 'DEAL'},
    'ANTE': {'ANTE', 'COLLECT'},
    'COLLECT': {'BLIND', 'DEAL', 'SHOW', 'KILL', 'PUSH', 'PULL'},     # PULL: nothing in the pot to push
    'BLIND': {'BLIND', 'DEAL'},
    'DEAL': {'DEAL', 'BET', 'COLLECT', 'SHOW', 'KILL', 'PUSH'},
    'BET': {'BET', 'COLLECT', 'DEAL', 'SHOW', 'KILL', 'PUSH'},
    'SHOW': {'SHOW', 'DEAL', 'KILL', 'PUSH'},
    'KILL': {'KILL', 'PUSH'},
    'PUSH': {'PUSH', 'PULL'},
    'PULL': {'PULL'},
}


def fingerprint(st):
    parts = []
    for f in dataclasses.fields(st):
        if f.name in ('operations', 'divmod', 'rake'):
            continue
        parts.append(repr(getattr(st, f.name)))
    return hash(tuple(parts))


def op_bound(cfg, st):
    n = cfg['n']
    streets = len(st.streets)
    runs = 3
    maxstack = max(cfg['stacks'])
    raises = maxstack // max(1, cfg['bb']) + n + 2
    per_street = 4 + 8 * n + n * raises
    return 60 + 12 * n + streets * runs * per_street


class PhaseMonitor(Monitor):
    def __init__(self, cfg):
        self.cfg = cfg
        self.prev = 'START'
        self.count = 0
        self.fp = None
        self.bound = None
        self.pull_seen = False
        self.dealt = False

    def on_op(self, world, st, op):
        code = OPCODE.get(type(op).__name__)
        cls = CLASS.get(code)
        self.count += 1
        if cls is None:
            raise Violation('C07.order', f'unexpected operation {op!r} in the log')
        if cls not in FOLLOW[self.prev]:
            raise Violation('C07.order', f'operation class {cls} ({op!r}) directly follows {self.prev}: '
                            f'not in the documented phase order; log so far {opseq(st)}')
        self.prev = cls
        if cls == 'DEAL':
            self.dealt = True
        elif cls in ('ANTE', 'BLIND') and self.dealt:
            raise Violation('C07.order', f'{op!r}: a forced bet is posted after cards have been dealt; log so far {opseq(st)}')
        if self.bound is None:
            self.bound = op_bound(self.cfg, st)
        if self.count > self.bound:
            raise Violation('C07.bound', f'{self.count} operations exceed the bound {self.bound} for this configuration')

    def on_quiescent(self, world):
        st = world.state
        enabled = [g for g, qs in GROUPS.items() if any(getattr(st, q)() for q in qs)]
        if st.status and not enabled and st.street is not None and st.showdown_index is not None and any(
                c.unknown_status for c in st.hole_cards[st.showdown_index]):
            # scope bound (DESIGN C07/C08): the player to show holds unknown cards, so the default-argument show is
            # refused; showing explicit cards or mucking is the available operation
            enabled = ['SHOW']
        if st.status:
            if not enabled:
                raise Violation('C07.enabled', 'the hand is not over but no operation is available '
                                f'(log {opseq(st)})')
            if len(enabled) > 1:
                raise Violation('C07.enabled', f'operations of several phases are available at once: {enabled}')
        elif enabled:
            raise Violation('C07.enabled', f'the hand is over but operations are still available: {enabled}')
        if world.in_call is None and world.decisions:
            fp = fingerprint(st)
            if fp == self.fp:
                raise Violation('C07.progress', f'{world.decisions[-1]} succeeded without changing the public state')
            self.fp = fp
        else:
            self.fp = fingerprint(st)

    def on_end(self, world):
        pass        # "over but something still available" is the enabled-set monitor; leftover chips are C01


def crash_tags(world):
    st = world.state
    if st is None:
        return {'in_constructor': True}
    vol = [d for d in world.decisions if d[0] == 'show_or_muck_hole_cards' and d[1][:1] == (False,)]
    tags = {'in_constructor': False, 'voluntary_muck': bool(vol), 'live': sum(st.statuses)}
    try:
        neg = [p.unraked_amount for p in st.pots if p.unraked_amount < 0]
    except Exception:       # noqa: BLE001
        neg = []
    tags['rounding_residue'] = (bool(neg) and world.cfg['chip'] in ('float', 'decimal')
                                and all(abs(float(x)) < 1e-9 for x in neg))
    return tags


def run(ch, ctx):
    bias = dict(BIAS)
    if ch.chance('c07.uniform_autos', 1, 2):
        bias['autos_mask'] = ch.pick('c07.autos_mask', 1 << 11)      # every one of the 2^11 subsets equally likely
    cfg = gen_config(ch, bias)
    ctx.tag('automation_subset', cfg['autos'])
    ctx.tag('variant_x_players', '%s/%d' % (cfg['variant'], cfg['n']))
    mon = PhaseMonitor(cfg)
    world = None
    try:
        world = World(ch, ctx, cfg, [mon], run_key=run_key_of(ch))
        world.tick_cap = op_bound(cfg, world.state)
        if cfg['variant'] in ('F7S', 'F7S8', 'FR', 'XSHL') and cfg['n'] >= 3 and not (cfg['autos'] >> 4 & 1) and cfg['bring_in'] > 0 \
                and ch.chance('c07.unknown_door', 1, 2):
            # (hole dealing not automated, a bring-in so that he faces a bet) one deep-stacked player's door card is dealt as "??";
            # he folds on third street
            deep = [i for i in range(cfg['n']) if cfg['stacks'][i] > 4 * cfg['bb'] + 4]
            if len(deep) == cfg['n']:         # (everybody can act, so the bring-in stays with the lowest KNOWN door card)
                world.unknown_door = deep[ch.pick('c07.unknown_door.who', len(deep))]
        world.run()
    except EngineCrash as c:
        if world is not None:
            note_trace(world, ctx)
            c.tags = crash_tags(world)
        else:
            ctx.notes['config'] = cfg
            c.tags = {'in_constructor': True}
        raise
    except (Violation, Stuck):
        if world is not None:
            note_trace(world, ctx)
        else:
            ctx.notes['config'] = cfg
        raise
    st = world.state
    seq = opseq(st)
    ctx.count('automations_on_%02d' % bin(cfg['autos']).count('1'))      # how many of the 11 automations are on
    ctx.notes = {}
    ctx.count('showdowns', 's' in seq)
    ctx.count('runouts_gt1', (st.runout_count or 1) > 1)
    ctx.count('all_in_runout', st.all_in_status)
    ctx.count('custom_variant', 'custom' in cfg)
    ctx.count('mid_cascade_ops', len(st.operations) - len(world.decisions))
    std_finish(world, ctx, 's' in seq or seq.count('c') >= 2)
    ctx.shape.append(cfg['autos'])
