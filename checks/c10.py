"""C10 - dealing follows the street definitions: counts, face up/down, burns, draws.  DESIGN.md section 5, C10."""
from __future__ import annotations

from .common import (COMPONENTS, EngineCrash, Monitor, Stuck, Violation, World, gen_config, note_trace,
                     run_key_of, std_finish, opseq)
from ref.deal import RDeal, DealError, DEAL

ID = 'C10'
LEVEL = 'exploration'
crash_is_violation = False
QUICK_RUNS = 20000
THOROUGH_RUNS = 500000
QUICK_BUDGET = 100
THOROUGH_BUDGET = 1500
RULE = ('one run = one simulated hand on every variant plus user-defined street lists (hole and board cards on the same '
        'street, draw streets with mixed facings, no-burn streets, 5-card stud, stud hi/lo), 2-9 players, 1-2 boards, a '
        'randomised dealer schedule (1..k cards per call, explicit dealee among those with cards pending, engine-chosen / '
        'counted / explicit cards), fold and all-in patterns, deck-exhausting tables (8-handed stud, and 9-handed, where two successive streets fall back). A dealing model '
        'derived from the street definitions (ref/deal.py) follows the log: burn first iff prescribed, only live '
        'players with cards pending are dealt, the prescribed facings in order, the default dealee is the round-robin '
        'one, boards are filled to exactly the prescribed count, discards are held cards and replacements equal them in '
        'number and facing, nothing else is logged before the street is completely dealt, and the stud fallback to '
        'shared board cards happens exactly when the cards not in play cannot cover the street, after which every board holds the '
        'prescribed cards plus the cards of the streets that fell back; at every betting decision '
        'the hands (cards and facings) equal the model\'s. non-trivial = >= 2 dealing phases; distinct = distinct '
        '(configuration class, dealer mode, operation-class sequence) digests')
ASSUMPTIONS = [
    'several run-outs: the model prescribes the streets after the all-in street r times, r from the logged selections; '
    'how the boards relate to each other is C14\'s business',
    'cards are known (the fallback threshold counts the cards not in play)',
]
BIAS = dict(custom_num=2, chips=('int',), rakes=('none',))
EXHAUST = ('F7S', 'F7S8', 'FR', 'XSHL')


class DealMonitor(Monitor):
    def __init__(self, model_factory=None, prefix='C10'):
        self.model_factory = model_factory
        self.prefix = prefix
        self.m = None
        self.first_in_call = None
        self.prev_boards = []

    def ensure(self, st):
        if self.m is None and self.model_factory is not None:
            self.m = self.model_factory(st)
        if self.m is None:
            streets = [(s.card_burning_status, tuple(s.hole_dealing_statuses), s.board_dealing_count, s.draw_status)
                       for s in st.streets]
            self.m = RDeal(st.player_count, streets, st.starting_board_count, len(st.deck))

    def boards_of(self, st):
        return [list(st.get_board_cards(b)) for b in st.board_indices] if st.board_cards else []

    def on_op(self, world, st, op):
        self.ensure(st)
        if type(op).__name__ == 'BoardDealing' and self.m.fallbacks == 0:
            # the dealt cards go, in order, to the end of ONE board - the first that still lacks cards of this street - and
            # no other board changes
            now = self.boards_of(st)
            prev = self.prev_boards
            if len(prev) != len(now):
                prev = None               # the number of boards changed inside this call (run-out count agreed): no reference
            changed = [b for b in range(len(now)) if prev is not None and now[b] != prev[b]]
            k = len(op.cards)
            grown = [b for b in changed if now[b][:len(now[b]) - k] == prev[b][:len(now[b]) - k] and now[b][-k:] == list(op.cards)
                     and len(now[b]) == len(prev[b]) + k]
            shared = len(now) > len({tuple(x) for x in now})          # run-outs that still share every card dealt so far
            if prev is not None and not shared and (len(changed) != 1 or grown != changed):
                raise Violation(self.prefix + '.placement', f'{op!r}: the cards did not go to the end of exactly one board: boards '
                                f'before {prev}, after {now} [log {opseq(st)}]', rule='placement')
            if prev is not None and not shared and self.m.in_phase:
                want = next((j for j, c in enumerate(self.m.pend_board) if c), None)
                if want is not None and len(now) == len(self.m.pend_board) and changed[0] != want:
                    raise Violation(self.prefix + '.placement', f'{op!r} went to board {changed[0]}, the first board still lacking '
                                    f'cards of this street is {want} (pending {self.m.pend_board})', rule='placement')
        self.prev_boards = self.boards_of(st)
        default_index = True
        call = world.in_call
        if call is not None and call[0] == 'deal_hole' and self.first_in_call is not call:
            self.first_in_call = call
            args = call[1]
            if len(args) >= 2 and args[1] is not None:
                default_index = False
                if type(op).__name__ == 'HoleDealing' and op.player_index != args[1]:
                    raise Violation(self.prefix + '.dealee', f'deal_hole{tuple(args)} names player {args[1]} but {op!r} dealt to player '
                                    f'{op.player_index}', rule='dealee')
        try:
            self.m.on(op, default_index)
        except DealError as e:
            raise Violation(self.prefix + '.' + e.rule, f'{e} [operation #{len(st.operations)} {op!r}; log {opseq(st)}]', rule=e.rule)

    def on_quiescent(self, world):
        st = world.state
        self.ensure(st)
        m = self.m
        if st.actor_index is not None:
            if m.in_phase and not m.complete():
                raise Violation(self.prefix + '.incomplete', f'player {st.actor_index} is asked to act but street {m.street} is not '
                                f'completely dealt (hole pending {[len(p) for p in m.pend_hole]}, board pending {m.pend_board})',
                                rule='incomplete')
            for i in range(st.player_count):
                have = list(zip(st.hole_cards[i], st.hole_card_statuses[i]))
                if have != m.hands[i]:
                    raise Violation(self.prefix + '.hands', f'at a betting decision player {i} holds {have}, the street definitions '
                                    f'and the log give {m.hands[i]}', rule='hands')
            want_board = sum(s.board_dealing_count for s in st.streets[:m.street + 1])
            got = [len(list(st.get_board_cards(b))) for b in st.board_indices]
            if m.fallbacks == 0 and any(g != want_board for g in got):
                raise Violation(self.prefix + '.board', f'at a betting decision the boards hold {got} cards, prescribed {want_board}', rule='board')
            if m.fallbacks and any(g != want_board + m.fallback_cards for g in got):
                # stud streets dealt as shared board cards: every board holds the prescribed cards plus one card per
                # hole card of each street that fell back
                raise Violation(self.prefix + '.board', f'at a betting decision the boards hold {got} cards; prescribed {want_board} plus '
                                f'{m.fallback_cards} dealt as shared cards on {m.fallbacks} street(s) the deck could not cover; '
                                f'board_cards {st.board_cards}', rule='board', fallback_streets=m.fallbacks)


def run(ch, ctx):
    bias = dict(BIAS)
    if ch.chance('c10.exhaust', 1, 4):
        bias['variants'] = EXHAUST
        bias['min_players'] = 7
        # nine-handed stud (the repository's own tests seat nine at razz): two successive streets can then fall back
        bias['max_players_by_variant'] = {'F7S': 9, 'F7S8': 9, 'FR': 9}
    if ch.chance('c10.refused_street', 1, 40):
        bias['variants'] = ('XHD',)         # a street with hole cards and a draw together: must be refused (aborted run)
        ctx.count('refused_street_list_tried')
    cfg = gen_config(ch, bias)
    mon = DealMonitor()
    world = None
    try:
        dealer = ch.choice('c10.dealer', ('engine', 'counted', 'explicit', 'explicit'))
        if cfg['n'] == 2 and cfg['variant'] in ('N2L1D', 'F2L3D', 'FB', 'X5D', 'XA5') and ch.chance('c10.hidden_draw', 1, 2):
            # heads-up draw game (the deck cannot run out): face-down cards dealt unknown, so that hands mix known and
            # unknown cards and unknown cards are discarded; the showdown is manual and reveals real cards
            dealer = 'hidden'
            cfg["autos"] &= ~(1 << 7)          # HOLE_CARDS_SHOWING_OR_MUCKING off
            ctx.count('hidden_draw_runs')
        world = World(ch, ctx, cfg, [mon], run_key=run_key_of(ch), runout_prefs=(None, 1, 2, 2, 3),
                      profile=ch.choice('c10.profile', ('passive', 'passive', 'balanced', 'folder')),
                      dealer=dealer,
                      explicit_index_num=1, muck_num=0, partial_show=False)
        world.run()
    except (Violation, EngineCrash, Stuck):
        if world is not None:
            note_trace(world, ctx)
        else:
            ctx.notes['config'] = cfg
        raise
    ctx.count('dealing_phases', mon.m.phases)
    ctx.count('stud_fallback_fired', mon.m.fallbacks)
    ctx.count('hands_with_two_streets_fallen_back', mon.m.fallbacks >= 2)
    ctx.count('runouts_gt1', mon.m.runouts > 1 and mon.m.returns_left is not None)
    ctx.count('draw_rounds', opseq(world.state).count('x') > 0)
    ctx.count('custom_variant', 'custom' in cfg)
    std_finish(world, ctx, mon.m.phases >= 2)
    ctx.shape.append(world.dealer)
