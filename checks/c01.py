"""C01 - chips are conserved; payoffs are zero-sum.  DESIGN.md section 5, C01."""
from __future__ import annotations
from decimal import Decimal
from fractions import Fraction

from .common import (COMPONENTS, EngineCrash, Monitor, Stuck, Violation, World, gen_config, live_model,
                     note_trace, run_key_of, std_finish)

ID = 'C01'
LEVEL = 'exploration'
crash_is_violation = False
QUICK_RUNS = 24000
THOROUGH_RUNS = 600000
QUICK_BUDGET = 100
THOROUGH_BUDGET = 1500
RULE = ('one run = one simulated hand: configuration (12 predefined + 8 user-defined street lists, 2-9 players, '
        'stacks incl. ones below ante/blind/bring-in, ante/blind/straddle/post layouts, trimming on/off, modes, '
        'automation subset, 1-2 boards, int/Fraction/float/Decimal chips incl. int amounts inside Fraction stacks, '
        'rake none/percentage+cap/no-flop-no-drop/per-pot/75 % (small pots raked away entirely), divmod default/exact/chip-denomination) and every agent '
        'decision drawn from the seeded choice sequence; conservation, non-negativity, payoff identity and a '
        'record-driven chip ledger are checked after every logged operation (also mid-cascade); a quarter of the runs are '
        '"quiet": no derived value is read before the hand is over (the ledger still follows the records), so that a value '
        'the engine caches is not refreshed by the observer. '
        'non-trivial = the hand contains a voluntary wager (call > 0 or bet/raise); distinct = distinct '
        '(configuration class, operation-class sequence) digests among non-trivial hands')
ASSUMPTIONS = [
    'stacks are finite (math.inf stacks excluded: the invariant is meaningless on them)',
    'float/Decimal chip values are compared within 1e-9 relative; int and Fraction exactly',
    'rake and divmod callables are legal (return parts that add up to the amount)',
    'K1 (all remaining players muck voluntarily: pot never awarded) is pinned by the repository test '
    'test_unknown_showdown and listed in known_findings.json',
]
BIAS = dict(allow_mixed=True, rakes=('none', 'none', 'pct', 'nfnd', 'perpot', 'high'),
            divmods=('default', 'default', 'exact', 'denom'), custom_num=1,
            stack_pool=(1, 1, 2, 2, 3, 5, 8, 13, 20, 40, 100, 200))


def close(a, b):
    if isinstance(a, (float, Decimal)) or isinstance(b, (float, Decimal)):
        fa, fb = float(a), float(b)
        return abs(fa - fb) <= 1e-9 * max(1.0, abs(fa), abs(fb))
    return a == b


def nonneg(x):
    if isinstance(x, (float, Decimal)):
        return float(x) >= -1e-9
    return x >= 0


def voluntary_forfeits(world):
    """Number of decisions by which a player gave up at a showdown: an explicit muck, or tabling fewer cards
    than he holds on the final street (the rest become unknown and the hand cannot be evaluated)."""
    k = 0
    for d in world.decisions:
        name, args = d[0], d[1]
        if name == 'show_or_muck_hole_cards' and args:
            if args[0] is False:
                k += 1
            elif isinstance(args[0], str) and world.partial_marks.get(id(args)):
                k += 1
    return k


class ChipLedger(Monitor):
    """Conservation invariants + a ledger rebuilt from the operation records alone."""

    def __init__(self, quiet=False):
        self.init = False
        self.quiet = quiet          # quiet runs do not read any derived value (pots, ...) before the hand is over

    def start(self, st):
        self.init = True
        self.n = st.player_count
        self.total = sum(st.starting_stacks)
        self.stacks = list(st.starting_stacks)
        self.bets = [0] * self.n
        self.pot = 0
        self.seen = 0
        self.returned = 0

    def fail(self, st, op, what, **sig):
        raise Violation('C01.' + what.split(':')[0], f'{what} after operation #{len(st.operations)} {op!r}; '
                        f'stacks={st.stacks} bets={st.bets} pots={list(st.pots)} starting={st.starting_stacks}', **sig)

    def on_op(self, world, st, op):
        if not self.init:
            self.start(st)
        t = type(op).__name__
        n = self.n
        # --- ledger from the record alone
        if t in ('AntePosting', 'BlindOrStraddlePosting', 'BringInPosting', 'CheckingOrCalling'):
            i = op.player_index
            self.stacks[i] -= op.amount
            self.bets[i] += op.amount
        elif t == 'CompletionBettingOrRaisingTo':
            i = op.player_index
            d = op.amount - self.bets[i]
            self.stacks[i] -= d
            self.bets[i] = op.amount
        elif t == 'BetCollection':
            live = live_model(st.operations[:-1], n)
            survivor = live.index(True) if sum(live) == 1 else None
            for i in range(n):
                if i == survivor:
                    if op.bets[i] != 0:
                        self.fail(st, op, 'collection: chips collected from the lone survivor')
                    continue
                back = self.bets[i] - op.bets[i]
                if not nonneg(back):
                    self.fail(st, op, 'collection: more collected than was bet')
                if back:
                    self.returned += 1
                self.stacks[i] += back
                self.pot += op.bets[i]
                self.bets[i] = 0
        elif t == 'ChipsPushing':
            for i in range(n):
                if not nonneg(op.amounts[i]):
                    self.fail(st, op, 'push: negative amount pushed')
                self.bets[i] += op.amounts[i]
                self.pot -= op.amounts[i]
        elif t == 'ChipsPulling':
            i = op.player_index
            if not close(op.amount, self.bets[i]):
                self.fail(st, op, 'pull: amount pulled differs from the chips in front of the player')
            self.stacks[i] += op.amount
            self.bets[i] = 0
        if self.quiet:
            return          # observer effect: reading `pots` after every operation could itself refresh (or prime) a cache
        # --- invariants on the real state
        pots = list(st.pots)
        chips = sum(st.stacks) + sum(st.bets) + sum(p.raked_amount + p.unraked_amount for p in pots)
        if not close(chips, self.total):
            self.fail(st, op, f'conservation: stacks+bets+pots={chips} != chips at the start={self.total}')
        for i in range(n):
            if not nonneg(st.stacks[i]) or not nonneg(st.bets[i]):
                self.fail(st, op, f'negative: stack or bet of player {i} is negative')
            if not close(st.payoffs[i], st.stacks[i] - st.starting_stacks[i]) and not st.bets[i] \
                    and t != 'ChipsPushing' and False:
                pass
        for p in pots:
            if not nonneg(p.raked_amount) or not nonneg(p.unraked_amount):
                self.fail(st, op, 'negative: pot amount is negative')
        for i in range(n):
            if not close(st.stacks[i], self.stacks[i]) or not close(st.bets[i], self.bets[i]):
                self.fail(st, op, f'ledger: player {i} has stack {st.stacks[i]} bet {st.bets[i]}, the records '
                          f'explain stack {self.stacks[i]} bet {self.bets[i]}')
            if not close(st.payoffs[i], st.stacks[i] - st.starting_stacks[i]):
                self.fail(st, op, f'payoff: payoffs[{i}]={st.payoffs[i]} != stack - starting stack '
                          f'= {st.stacks[i] - st.starting_stacks[i]}')
        potsum = sum(p.raked_amount + p.unraked_amount for p in pots)
        if not close(potsum, self.pot):
            self.fail(st, op, f'ledger: pots hold {potsum}, the records explain {self.pot}')

    def on_end(self, world):
        st = world.state
        if not self.init:
            self.start(st)
        op = st.operations[-1] if st.operations else None
        if self.quiet:
            for i in range(self.n):
                if not close(st.stacks[i], self.stacks[i]) or not close(st.bets[i], self.bets[i]):
                    self.fail(st, op, f'ledger: player {i} ends with stack {st.stacks[i]} bet {st.bets[i]}, the records explain stack '
                              f'{self.stacks[i]} bet {self.bets[i]} (run without intermediate reads)')
            if not close(sum(st.stacks) + sum(st.bets) + sum(p.raked_amount + p.unraked_amount for p in st.pots), self.total):
                self.fail(st, op, 'conservation: chips at the end differ from the chips at the start (run without intermediate reads)')
        live = sum(st.statuses)
        tags = dict(live_at_end=live, voluntary_forfeit=voluntary_forfeits(world) > 0)
        if any(st.bets):
            self.fail(st, op, f'terminal: bets left on the table {st.bets}', **tags)
        pots = list(st.pots)
        left = sum(p.unraked_amount for p in pots)
        if not close(left, 0):
            self.fail(st, op, f'terminal: {left} chips left in the pot when the hand is over', **tags)
        raked = sum(p.raked_amount for p in pots)
        if not close(sum(st.payoffs), -raked):
            self.fail(st, op, f'terminal: payoffs sum to {sum(st.payoffs)}, rake taken {raked}', **tags)
        for i in range(self.n):
            if not close(st.payoffs[i], st.stacks[i] - st.starting_stacks[i]):
                self.fail(st, op, f'terminal: payoff of player {i} is not final stack - starting stack', **tags)


def run(ch, ctx):
    cfg = gen_config(ch, BIAS)
    quiet = ch.chance('c01.quiet', 1, 4)
    mon = ChipLedger(quiet)
    world = None
    forfeits = ch.chance('c01.forfeits', 1, 3)      # voluntary mucks / partial shows only in a third of the runs
    try:
        world = World(ch, ctx, cfg, [mon], run_key=run_key_of(ch), muck_num=1 if forfeits else 0,
                      partial_show=forfeits)
        world.run()
    except (Violation, EngineCrash, Stuck):
        if world is not None:
            note_trace(world, ctx)
        else:
            ctx.notes['config'] = cfg
        raise
    st = world.state
    names = [type(op).__name__ for op in st.operations]
    wager = any((type(op).__name__ == 'CheckingOrCalling' and op.amount) or
                type(op).__name__ == 'CompletionBettingOrRaisingTo' for op in st.operations)
    pots = list(st.pots)
    ctx.count('side_pots_ge2', len(pots) >= 2)
    ctx.count('raked_hands', any(p.raked_amount for p in pots))
    ctx.count('chip_' + cfg['chip'])
    ctx.count('mixed_int_in_fraction', bool(cfg.get('mixed')))
    ctx.count('pushes', names.count('ChipsPushing'))
    ctx.count('short_forced_bet', any(cfg['stacks'][i] < cfg['bb'] for i in range(cfg['n'])))
    ctx.count('custom_variant', 'custom' in cfg)
    ctx.count('quiet_runs_no_intermediate_reads', quiet)
    ctx.count('uncalled_returned', mon.init and mon.returned > 0)
    ctx.count('odd_chip_pushes', sum(1 for op in st.operations if type(op).__name__ == 'ChipsPushing'
                                     and len({a for a in op.amounts if a}) > 1))
    std_finish(world, ctx, wager)
