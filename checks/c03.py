"""C03 - betting follows the rules: whose turn, which actions, which amounts.  DESIGN.md section 5, C03."""
from __future__ import annotations
import warnings

from .common import (COMPONENTS, EngineCrash, Monitor, Stuck, Violation, World, gen_config, note_trace,
                     run_key_of, std_finish, opseq)
from ref.bet import RBet, ModelError, DEAL

from sim.config import unit_of
from pokerkit import BettingStructure, Mode

ID = 'C03'
LEVEL = 'exploration'
crash_is_violation = False
QUICK_RUNS = 16000
THOROUGH_RUNS = 450000
QUICK_BUDGET = 100
THOROUGH_BUDGET = 1500
RULE = ('one run = one simulated hand (all structures, modes, blind/straddle/post/bring-in layouts, caps 1-4 and none, '
        'stacks creating covered players, short all-ins and nobody-can-call situations, aggressive and mixed profiles; a '
        'quarter of the runs are an all-in laboratory: 4+ players, stacks of 1-6 big blinds next to deep ones, short stacks '
        'moving in and deep stacks calling or min-raising, so that full raises, all-ins that are exactly a minimum raise and '
        'chains of short all-ins meet callers who keep chips). '
        'An independent betting-round model (ref/bet.py) is advanced from the operation log only; every logged betting '
        'operation must be one the model allows (turn, fold legality, call amount, bring-in, raise admissibility and '
        'interval), a round may end only when the model\'s queue is empty, and at every state with an actor the engine\'s '
        'actor_index, can_fold (also with warnings as errors), can_check_or_call, checking_or_calling_amount, '
        'can_post_bring_in, effective_bring_in_amount, min/pot/max raise-to amounts and can_complete_bet_or_raise_to(x) '
        'for 15 probe amounts around every bound are compared with the model (refused-request injection). '
        'non-trivial = hand with a bet or raise; distinct = distinct (configuration class, operation-class sequence) digests')
ASSUMPTIONS = [
    '"full raise" = an increment at least as large as the largest increment so far in the round; the first wager of a '
    'round is always full (pinned by the repository test test_all_ins); whether an all-in opening bet below the street '
    'minimum re-opens the betting is UNSPECIFIED',
    'the pot-limit maximum includes antes already in the pot (the statement says "the pot-sized raise")',
    'players whose chips nobody can match (effective stack 0 at the start of a round) are skipped',
    'the opener rule is R-OPEN (also checked by C13); exotic non-monotone blind layouts are not generated',
]
BIAS = dict(custom_num=2, chips=('int', 'int', 'fraction'), stack_pool=(1, 2, 3, 5, 8, 13, 20, 20, 40, 40, 100, 200),
            rakes=('none', 'none', 'pct', 'nfnd'))      # the betting rules - the pot-sized raise too - do not depend on the rake
PROFILE_POOL = ('aggressive', 'aggressive', 'balanced', 'shover', 'passive')


def structure_code(st):
    return {BettingStructure.NO_LIMIT: 'NL', BettingStructure.POT_LIMIT: 'PL', BettingStructure.FIXED_LIMIT: 'FL'}[st.betting_structure]


def blinds_by_player(st):
    n = st.player_count
    b = st.blinds_or_straddles
    return [b[(not i) if n == 2 else i] for i in range(n)]


def model_for(st):
    streets = [(s.opening.name, s.min_completion_betting_or_raising_amount, s.max_completion_betting_or_raising_count)
               for s in st.streets]
    return RBet(st.player_count, st.starting_stacks, structure_code(st), st.mode == Mode.TOURNAMENT, streets,
                st.bring_in, blinds_by_player(st))


def ups_of(st):
    return [list(st.get_up_cards(i)) for i in range(st.player_count)]


class BetMonitor(Monitor):
    def __init__(self, unit, model_factory=None, prefix='C03'):
        self.model_factory = model_factory or model_for
        self.prefix = prefix
        self.m = None
        self.unit = unit
        self.ups = None
        self.desync = False
        self.compared = 0
        self.probed = 0
        self.refusals = {}

    def ensure(self, st):
        if self.m is None:
            self.m = self.model_factory(st)
            self.ups = ups_of(st)

    def on_op(self, world, st, op):
        self.ensure(st)
        if self.desync:
            return
        try:
            self.m.on(op, ups_provider=lambda: self.ups, engine_opener_hint=None)
        except ModelError as e:
            raise Violation(self.prefix + '.' + e.rule, f'{e} [operation #{len(st.operations)} {op!r}; log {opseq(st)}]', rule=e.rule)
        if type(op).__name__ in DEAL:
            self.ups = ups_of(st)
        if self.m.opener_unspecified:
            self.desync = True

    def on_quiescent(self, world):
        st = world.state
        self.ensure(st)
        m = self.m
        if self.desync:
            return
        if m.pending_start and m.last_class == 'deal' and not (
                st.can_burn_card() or st.can_deal_hole() or st.can_deal_board() or st.can_stand_pat_or_discard()):
            m.start_round(self.ups)
            if m.opener_unspecified:
                self.desync = True
                world.ctx.count('opener_unspecified')
                return
        actor = st.actor_index
        if m.in_round != (actor is not None):
            raise Violation(self.prefix + '.round', f'the rules say {"player %s is to act (queue %s)" % (m.actor(), m.queue) if m.in_round else "the betting round is over"}, '
                            f'the engine says actor_index={actor}; log {opseq(st)}; stacks {st.stacks} bets {st.bets}',
                            rule='round')
        if not m.in_round:
            return
        self.compared += 1
        i = m.actor()
        ctx = f'[player {i}, street {m.street}, bets {st.bets}, stacks {st.stacks}, log {opseq(st)}]'
        if actor != i:
            raise Violation(self.prefix + '.turn', f'it is player {i}\'s turn by the rules (queue {m.queue}, designated opener '
                            f'{m.designated}), the engine says {actor} {ctx}', rule='turn')
        fs = m.fold_status()
        got = st.can_fold()
        if got != (fs != 'no'):
            raise Violation(self.prefix + '.fold', f'can_fold() is {got}, the rules say {fs} {ctx}', rule='fold')
        with warnings.catch_warnings():
            warnings.simplefilter('error')
            got_e = st.can_fold()
        if got_e != (fs == 'yes'):
            raise Violation(self.prefix + '.fold', f'with warnings as errors can_fold() is {got_e}, the rules say {fs} {ctx}', rule='fold_warn')
        if st.can_check_or_call() != m.call_allowed():
            raise Violation(self.prefix + '.call', f'can_check_or_call() is {st.can_check_or_call()} {ctx}', rule='call')
        if m.call_allowed():
            if st.checking_or_calling_amount != m.call_amount():
                raise Violation(self.prefix + '.call_amount', f'checking_or_calling_amount is {st.checking_or_calling_amount}, '
                                f'the rules say min(stack, to match) = {m.call_amount()} {ctx}', rule='call_amount')
        elif st.checking_or_calling_amount is not None:
            raise Violation(self.prefix + '.call_amount', f'a call amount is reported while the bring-in is due {ctx}', rule='call_amount')
        if st.can_post_bring_in() != m.bring_in_pending:
            raise Violation(self.prefix + '.bring_in', f'can_post_bring_in() is {st.can_post_bring_in()}, the rules say '
                            f'{m.bring_in_pending} {ctx}', rule='bring_in')
        if m.bring_in_pending and st.effective_bring_in_amount != m.bring_in_amount():
            raise Violation(self.prefix + '.bring_in', f'effective_bring_in_amount {st.effective_bring_in_amount} != {m.bring_in_amount()} {ctx}',
                            rule='bring_in')
        why = m.raise_refusal()
        u = self.unit
        lo_e = st.min_completion_betting_or_raising_to_amount
        hi_e = st.max_completion_betting_or_raising_to_amount
        pot_e = st.pot_completion_betting_or_raising_to_amount
        total = st.stacks[i] + st.bets[i]
        if why is not None:
            self.refusals[why] = self.refusals.get(why, 0) + 1
            if (lo_e, hi_e, pot_e) != (None, None, None):
                raise Violation(self.prefix + '.raise_' + why, f'the rules forbid a bet/raise ({why}) but the engine reports raise-to '
                                f'amounts min={lo_e} max={hi_e} {ctx}', rule='raise_' + why)
            probes = [None, u, m.cur() + m.street_min, total, total + u, 0 * u, -u]
            for x in probes:
                self.probed += 1
                if st.can_complete_bet_or_raise_to(*(() if x is None else (x,))):
                    raise Violation(self.prefix + '.raise_' + why, f'the rules forbid a bet/raise ({why}) but '
                                    f'can_complete_bet_or_raise_to({x}) is True {ctx}', rule='raise_' + why)
            return
        lo, hi, pot = m.raise_interval()
        if (lo_e, hi_e) != (lo, hi):
            raise Violation(self.prefix + '.interval', f'raise-to interval is [{lo_e}, {hi_e}], the rules say [{lo}, {hi}] '
                            f'(largest raise {m.largest}, street minimum {m.street_min}, count {m.count}/{m.cap}) {ctx}',
                            rule='interval')
        if pot_e != pot:
            raise Violation(self.prefix + '.pot', f'pot-sized raise-to is {pot_e}, the rules say {pot} {ctx}', rule='pot')
        mid = lo + ((hi - lo) // (2 * u)) * u if hi > lo else lo
        probes = [None, lo - u, lo, lo + u, mid, pot - u, pot, pot + u, hi - u, hi, hi + u, total, total + u, 0 * u, -u]
        for x in probes:
            self.probed += 1
            want = True if x is None else lo <= x <= hi
            got = st.can_complete_bet_or_raise_to(*(() if x is None else (x,)))
            if got != want:
                raise Violation(self.prefix + '.amount', f'can_complete_bet_or_raise_to({x}) is {got}, the allowed interval is '
                                f'[{lo}, {hi}] {ctx}', rule='amount')


LAB_BIAS = dict(variants=('NT', 'NT', 'PO', 'FT', 'NS', 'XHE'), custom_num=0, chips=('int', 'int', 'fraction'), min_players=4,
                stack_pool=(2, 3, 3, 4, 4, 5, 5, 6, 7, 8, 9, 10, 12, 100, 100, 200, 200), stack_mult=1, bbs=(2,),
                ante_kinds=('none', 'none', 'uniform'), plain_blinds=True, equal_num=0)


def run(ch, ctx):
    lab = ch.chance('c03.allin_lab', 1, 4)
    cfg = gen_config(ch, LAB_BIAS if lab else BIAS)
    if lab:
        ctx.count('allin_lab_runs')
    mon = BetMonitor(unit_of(cfg))
    world = None
    try:
        world = World(ch, ctx, cfg, [mon], run_key=run_key_of(ch),
                      profile='allin_lab' if lab else ch.choice('c03.profile', PROFILE_POOL),
                      muck_num=0, partial_show=False)
        world.run()
    except (Violation, EngineCrash, Stuck):
        if world is not None:
            note_trace(world, ctx)
        else:
            ctx.notes['config'] = cfg
        raise
    st = world.state
    seq = opseq(st)
    ctx.count('decisions_compared', mon.compared)
    ctx.fault('bad_request', mon.probed)
    for k, v in mon.refusals.items():
        ctx.count('rule_' + k, v)
    for k, v in mon.m.probes.items():
        ctx.count(k, v)
    ctx.count('structure_' + structure_code(st))
    ctx.count('raked_tables', cfg['rake'] != 'none')
    ctx.count('cap_reached', mon.refusals.get('cap', 0) > 0)
    ctx.count('desynced_unspecified_opener', mon.desync)
    std_finish(world, ctx, 'r' in seq)
