"""C09 - automation is only a convenience: it changes who performs a step, not the hand.  DESIGN.md section 5, C09."""
from __future__ import annotations

from .common import (COMPONENTS, EngineCrash, Monitor, Stuck, Violation, World, gen_config, note_trace,
                     run_key_of, std_finish, opseq, op_brief)
from sim import boot
from sim.config import build, autos_from_mask
from sim.snapshot import snapshot, diff

from pokerkit import Automation as A

ID = 'C09'
LEVEL = 'exploration'
crash_is_violation = False
QUICK_RUNS = 14000
THOROUGH_RUNS = 400000
QUICK_BUDGET = 100
THOROUGH_BUDGET = 1500
RULE = ('one run = a pair of executions of the same hand under the same deck order (keyed shuffle): AUTO, created with a '
        'random subset of the 11 automations (all 2^11 reachable; distinct subsets counted), driven by the agents; and '
        'TWIN, created with no automation, whose driver performs every step of the subset with default arguments as '
        'soon as it is available (documented phase order; burn, hole, board inside dealing; selection before showing) '
        'and otherwise replays AUTO\'s decisions with identical arguments. After every decision the twin\'s log must equal '
        'the same-length prefix of AUTO\'s log record by record, and at the end all fields except the automation tuple '
        'must be equal. non-trivial = the subset is neither empty nor irrelevant (at least one automated operation '
        'fired); distinct = distinct (configuration class incl. automation mask, operation-class sequence) digests')
ASSUMPTIONS = [
    'both executions see the same deck order (the seeded shuffle seam) and the same player/dealer decisions',
    'the twin applies an automated step before any further decision, i.e. "as soon as it becomes available"',
]
BIAS = dict(custom_num=1, autos_style=(1, 0, 4, 4, 3), rakes=('none', 'none', 'pct'))


def auto_step(s, autos):
    """Perform one step the automation subset covers, with default arguments, in the documented order."""
    if A.ANTE_POSTING in autos and s.can_post_ante():
        s.post_ante(); return True
    if A.BET_COLLECTION in autos and s.can_collect_bets():
        s.collect_bets(); return True
    if A.BLIND_OR_STRADDLE_POSTING in autos and s.can_post_blind_or_straddle():
        s.post_blind_or_straddle(); return True
    if A.CARD_BURNING in autos and s.can_burn_card():
        s.burn_card(); return True
    if A.HOLE_DEALING in autos and s.can_deal_hole():
        s.deal_hole(); return True
    if A.BOARD_DEALING in autos and s.can_deal_board():
        s.deal_board(); return True
    if A.RUNOUT_COUNT_SELECTION in autos and s.can_select_runout_count():
        s.select_runout_count(); return True
    if A.HOLE_CARDS_SHOWING_OR_MUCKING in autos and s.can_show_or_muck_hole_cards():
        s.show_or_muck_hole_cards(); return True
    if A.HAND_KILLING in autos and s.can_kill_hand():
        s.kill_hand(); return True
    if A.CHIPS_PUSHING in autos and s.can_push_chips():
        s.push_chips(); return True
    if A.CHIPS_PULLING in autos and s.can_pull_chips():
        s.pull_chips(); return True
    return False


class Lengths(Monitor):
    def __init__(self):
        self.after = []

    def on_quiescent(self, world):
        self.after.append(len(world.state.operations))


def twin_check(world, lens, ctx):
    st = world.state
    log = st.operations
    autos = autos_from_mask(world.cfg['autos'])
    boot.set_run_key(world.run_key)
    _, twin = build(world.cfg, 0)

    def settle(k, what):
        guard = 0
        while True:
            try:
                if not auto_step(twin, autos):
                    break
            except Exception as e:      # noqa: BLE001
                raise Violation('C09.twin_step', f'{what}: a default-argument step of the subset failed on the '
                                f'un-automated twin: {type(e).__name__}: {e}; twin log {opseq(twin)}')
            guard += 1
            if guard > 2000:
                raise Violation('C09.twin_step', 'automated steps never stop being available on the twin')
        want = log[:lens[k]]
        have = twin.operations
        if have != want:
            i = next((j for j, (a, b) in enumerate(zip(have, want)) if a != b), min(len(have), len(want)))
            a = op_brief(have[i]) if i < len(have) else '(nothing)'
            b = op_brief(want[i]) if i < len(want) else '(nothing)'
            raise Violation('C09.log', f'{what}: operation #{i} differs - automated run: {b}; manual twin: {a} '
                            f'(automations {[x.name for x in autos]})', op=b.split('(')[0])
    settle(0, 'after construction')
    for k, d in enumerate(world.decisions):
        name, args = d[0], d[1]
        try:
            getattr(twin, name)(*args)
        except Exception as e:      # noqa: BLE001
            raise Violation('C09.decision', f'decision #{k} {name}{args} of the automated run is refused by the manual '
                            f'twin: {type(e).__name__}: {e}', op=name)
        settle(k + 1, f'after decision #{k} {name}{args}')
    d = diff(snapshot(st, exclude=('automations',)), snapshot(twin, exclude=('automations',)))
    if d:
        raise Violation('C09.state', f'final states differ in {[x[0] for x in d]}: {d[:2]}',
                        fields=tuple(sorted(x[0] for x in d)))


def run(ch, ctx):
    bias = dict(BIAS)
    if ch.chance('c09.uniform_autos', 1, 2):
        bias['autos_mask'] = 1 + ch.pick('c09.autos_mask', (1 << 11) - 1)      # every non-empty subset equally likely
    cfg = gen_config(ch, bias)
    ctx.tag('automation_subset', cfg['autos'])
    lens = Lengths()
    world = None
    run_key = run_key_of(ch)
    try:
        world = World(ch, ctx, cfg, [lens], run_key=run_key)
        world.run_key = run_key
        world.run()
        twin_check(world, lens.after, ctx)
    except (Violation, EngineCrash, Stuck):
        if world is not None:
            note_trace(world, ctx)
            ctx.notes['automations'] = [a.name for a in autos_from_mask(cfg['autos'])]
        else:
            ctx.notes['config'] = cfg
        raise
    st = world.state
    fired = len(st.operations) - len(world.decisions)
    ctx.count('automated_operations', fired)
    std_finish(world, ctx, fired > 0 and cfg['autos'] != 0)
    ctx.shape.append(cfg['autos'])
    ctx.notes['mask'] = cfg['autos']
