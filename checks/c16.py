"""C16 - hand histories survive a save/load round trip and replay to the same result.  DESIGN.md section 5, C16."""
from __future__ import annotations
import io
import warnings

from .common import (COMPONENTS, EngineCrash, Monitor, Stuck, Violation, World, gen_config, note_trace,
                     run_key_of, std_finish, opseq, op_brief)
from sim.config import AUTOS
from sim.snapshot import apply_record

from pokerkit import Automation, HandHistory

ID = 'C16'
LEVEL = 'exploration'
crash_is_violation = False
QUICK_RUNS = 9000
THOROUGH_RUNS = 250000
QUICK_BUDGET = 100
THOROUGH_BUDGET = 1500
RULE = ('one run = one simulated hand on one of the 11 hand-history variants (single run-out, int or Decimal chips - the '
        'Decimal values in plain or in normalised spelling such as 1E+2 -, known '
        'cards or unknown burn/down cards revealed at showdown, commentary on some operations, a random subset of the 24 '
        'optional fields (strings, date and time, seats, player names, currency, time banks ...) and user-defined fields '
        'with str/int/bool/list/dict values drawn from printable ASCII incl. quotes, #, backslash; in a third of the runs '
        'also several histories in one file through dump_all/load_all), '
        'written with compression on or off through an in-memory binary file object (dump/load). Oracle: load(dump(h)) == '
        'h and dump(load(dump(h))) is the identical text; replaying the loaded history reproduces the player-action '
        'records (players, amounts, cards), the cards per player and board, the final stacks and the payoffs; '
        'fault injection: crash_phh - at a scheduler-chosen decision point only the bytes of the partial history survive, '
        'it is loaded, iterated to its last listed action and continued with the remaining records, and must finish '
        'with the same stacks; corrupt_history - one action line is replaced by one that can never apply and iterating '
        'must raise instead of stopping early; unknown_stacks - players who never ran out of chips get the starting '
        'stack `inf` (the format\'s notation for a stack nobody knows) and the history must still round-trip and replay to '
        'the same actions, payoffs and finite stacks. omitted_steps - folds and free checks that the next listed line makes unambiguous '
        'are left out of the action list and must be completed to the played hand. Operation commentary (words separated by runs of blanks, tabs, #, '
        'quotes, backslashes) is part of the compared player actions; commentary on dealing and chip-moving steps and on no-operations '
        'interleaved by the scheduler (fault note_interleaved) is written as note lines of its own and the sequence of notes must '
        'replay unchanged. In half of the runs the loaded history is also replayed with a scheduler-chosen subset of the default '
        'automations (HandHistory(automations=...)), so that the replay itself has to complete forced bets, collections, burns, '
        'run-out selection, hand killing, pushing and pulling, and must reach the same actions, cards, stacks and payoffs; in a third of the runs the lines of players who tabled their '
        'complete known hand are respelled in the format\'s other notation ("pN sm -") and the history must replay to the same hand. non-trivial = hand with >= 8 action lines; distinct = distinct '
        '(variant, chip type, compression, fault plan, action-verb sequence) digests')
ASSUMPTIONS = [
    'strings exclude control characters, the sequence \'\'\' and a trailing quote (TOML literal strings cannot carry them)',
    'damaged files (torn or short writes) are outside the property: the format has no length or checksum',
    'partial histories are cut at points where a player decision is pending and the street is completely dealt',
    'replays run in cash-game mode with the hand-history default automations, as HandHistory.create_game prescribes',
]
PHH = ('FT', 'NT', 'NS', 'PO', 'FO8', 'F7S', 'F7S8', 'FR', 'N2L1D', 'F2L3D', 'FB')
BIAS = dict(variants=PHH, custom_num=0, chips=('int', 'decimal'), rakes=('none',), sbcs=(1,), divmods=('default',),
            max_players=7, allow_normalized=True)
ALPHABET = ''.join(chr(c) for c in range(32, 127))
SHOW_BIT = 1 << AUTOS.index(Automation.HOLE_CARDS_SHOWING_OR_MUCKING)
MECHANICAL = ('AntePosting', 'BetCollection', 'BlindOrStraddlePosting', 'RunoutCountSelection', 'HandKilling',
              'ChipsPushing', 'ChipsPulling', 'NoOperation')


def gen_text(ch, label):
    k = 1 + ch.pick(label + '.len', 12)
    s = ''.join(ALPHABET[ch.pick(label + '.chr', len(ALPHABET))] for _ in range(k)).strip()
    s = s.replace("'''", "'x'")
    while s.endswith("'"):
        s = s[:-1]
    return s or 'x'


def gen_commentary(ch, k):
    """Commentary of an operation: words separated by runs of blanks and tabs, with quotes, '#' and backslashes."""
    if not ch.chance('cm.rich', 1, 2):
        return 'note %d' % k
    words = [gen_text(ch, 'cm.word').strip() or 'w' for _ in range(1 + ch.pick('cm.words', 3))]
    seps = (' ', '  ', '\t', '   ', ' # ', ' \t ')
    out = words[0]
    for w in words[1:]:
        out += seps[ch.pick('cm.sep', len(seps))] + w
    out = out.replace("'''", "'x'")
    while out.endswith("'") or out.endswith(' '):
        out = out[:-1]
    return out or 'w'


def gen_value(ch, depth=0):
    kind = ch.pick('uf.kind', 5 if depth == 0 else 3)
    if kind == 0:
        return gen_text(ch, 'uf.str')
    if kind == 1:
        return ch.pick('uf.int', 2000) - 1000
    if kind == 2:
        return bool(ch.pick('uf.bool', 2))
    if kind == 3:
        return [gen_value(ch, 1) for _ in range(1 + ch.pick('uf.list', 3))]
    # keys of an inline table: plain, or with blanks/tabs inside (the writer then has to quote them)
    return {('k%d', 'k %d', 'key\t%d x')[ch.pick('uf.key', 3)] % i: gen_value(ch, 1) for i in range(1 + ch.pick('uf.dict', 3))}


def abstract(ops):
    """Player actions (with their commentary) and cards of a log, ignoring mechanical steps and dealing granularity."""
    acts = []
    hole = {}
    board = []
    for op in ops:
        t = type(op).__name__
        if t == 'HoleDealing':
            hole.setdefault(op.player_index, []).extend(map(repr, op.cards))
        elif t == 'BoardDealing':
            board.extend(map(repr, op.cards))
        elif t == 'Folding':
            acts.append(('f', op.player_index, op.commentary))
        elif t == 'CheckingOrCalling':
            acts.append(('cc', op.player_index, op.amount, op.commentary))
        elif t == 'CompletionBettingOrRaisingTo':
            acts.append(('cbr', op.player_index, op.amount, op.commentary))
        elif t == 'BringInPosting':
            acts.append(('pb', op.player_index, op.amount, op.commentary))
        elif t == 'StandingPatOrDiscarding':
            acts.append(('sd', op.player_index, tuple(map(repr, op.cards)), op.commentary))
        elif t == 'HoleCardsShowingOrMucking':
            acts.append(('sm', op.player_index, tuple(map(repr, op.hole_cards)), op.commentary))
    return acts, hole, board


PLAYER_ACTIONS = ('Folding', 'CheckingOrCalling', 'CompletionBettingOrRaisingTo', 'BringInPosting', 'StandingPatOrDiscarding',
                  'HoleCardsShowingOrMucking')


def notes(ops):
    """Commentary that is not attached to a player's action line: the format writes it as '# text' lines of their own (they
    replay as no-operations), in the order in which it was made."""
    return [op.commentary for op in ops if type(op).__name__ not in PLAYER_ACTIONS and op.commentary is not None]


def roundtrip(hh, what):
    buf = io.BytesIO()
    hh.dump(buf)
    text = buf.getvalue()
    with warnings.catch_warnings():
        warnings.simplefilter('error')          # an unexpected-field warning would also be a defect
        try:
            hh2 = HandHistory.load(io.BytesIO(text))
        except Exception as e:      # noqa: BLE001
            raise Violation('C16.load', f'{what}: the written history cannot be read back: {type(e).__name__}: {e}\n'
                            f'{text.decode()[:1500]}', rule='load')
    if hh2 != hh:
        import dataclasses
        d = [f.name for f in dataclasses.fields(hh) if getattr(hh, f.name) != getattr(hh2, f.name)]
        raise Violation('C16.roundtrip', f'{what}: load(dump(h)) != h in fields {d}: '
                        f'{[(getattr(hh, n), getattr(hh2, n)) for n in d][:3]}', rule='roundtrip', fields=tuple(d))
    buf2 = io.BytesIO()
    hh2.dump(buf2)
    if buf2.getvalue() != text:
        raise Violation('C16.fixpoint', f'{what}: saving the loaded history gives a different text', rule='fixpoint')
    return hh2, text


def replay_to_end(hh, what):
    state = None
    try:
        for state in hh:
            pass
    except Exception as e:      # noqa: BLE001
        raise Violation('C16.replay', f'{what}: replaying the loaded history failed: {type(e).__name__}: {e}; actions '
                        f'{hh.actions}', rule='replay', exc=type(e).__name__)
    return state


def replay_with_fewer_automations(ch, st, hh, ctx):
    """The reader of a history may replay it with fewer automations than the default (`HandHistory(automations=...)`): the
    mechanical steps no automation performs are then completed by the replay itself - forced bets, collections, burns,
    run-out selection, hand killing, pushing and pulling - and the hand must come out the same."""
    import dataclasses
    default = hh.automations
    mask = ch.pick('c16.replay_autos.mask', 1 << len(default))
    subset = tuple(a for k, a in enumerate(default) if mask >> k & 1)
    if len(subset) == len(default):
        return
    h = dataclasses.replace(hh, automations=subset)
    what = 'replay with automations ' + ('{' + ', '.join(a.name for a in subset) + '}')
    end = replay_to_end(h, what)
    compare(st, end, what)
    ctx.count('replays_with_fewer_automations')


def several_in_one_file(ch, hh, ctx):
    """dump_all / load_all: the hand next to copies of itself that differ in a field, in one file."""
    import dataclasses
    hands = [hh]
    for k in range(1 + ch.pick('file.more', 3) if ch.pick('file.long', 3) else 9 + ch.pick('file.many', 6)):
        hands.append(dataclasses.replace(hh, hand=1000 + k, actions=list(hh.actions[:len(hh.actions) // (k + 1)])))
    buf = io.BytesIO()
    try:
        HandHistory.dump_all(hands, buf)
        with warnings.catch_warnings():
            warnings.simplefilter('error')
            back = list(HandHistory.load_all(io.BytesIO(buf.getvalue())))
    except Exception as e:      # noqa: BLE001
        raise Violation('C16.file', f'{len(hands)} histories written to one file cannot be read back: {type(e).__name__}: {e}',
                        rule='file')
    ctx.count('files_with_several_hands')
    if back != hands:
        bad = next((i for i, (a, b) in enumerate(zip(back, hands)) if a != b), min(len(back), len(hands)))
        raise Violation('C16.file', f'load_all(dump_all(hands)) returns {len(back)} histories for {len(hands)}; the first that '
                        f'differs is #{bad}', rule='file')
    buf2 = io.BytesIO()
    HandHistory.dump_all(back, buf2)
    if buf2.getvalue() != buf.getvalue():
        raise Violation('C16.file', 'saving the histories loaded from one file gives a different text', rule='file_fixpoint')


def omitted_steps(ch, st, hh, ctx, only_build=False):
    """Histories that leave out steps the reader can infer: folds (the player faces a bet and the next listed line is
    somebody else's) and free checks (where the next listed line is not a wager of the same player) are removed from the
    action list; iterating must complete them "in the documented way" - a check where checking is free, otherwise a
    fold - and arrive at the played hand."""
    import dataclasses
    acts = list(hh.actions)
    ops = [op for op in st.operations if type(op).__name__ in ('Folding', 'CheckingOrCalling', 'CompletionBettingOrRaisingTo',
                                                               'BringInPosting', 'StandingPatOrDiscarding',
                                                               'HoleCardsShowingOrMucking')]
    lines = [i for i, a in enumerate(acts) if a.split() and a.split()[0].startswith('p') and len(a.split()) > 1
             and a.split()[1] in ('f', 'cc', 'cbr', 'pb', 'sd', 'sm')]
    if len(lines) != len(ops):
        return                      # compression or completion changed the correspondence: nothing to say
    # a fold is inferable only where the folder faced a bet (where checking is free the reader completes a check)
    faced = {}
    bets = [0] * st.player_count
    for op in st.operations:
        t = type(op).__name__
        if t in ('AntePosting', 'BlindOrStraddlePosting', 'BringInPosting', 'CheckingOrCalling'):
            bets[op.player_index] += op.amount
        elif t == 'CompletionBettingOrRaisingTo':
            bets[op.player_index] = op.amount
        elif t == 'BetCollection':
            bets = [0] * st.player_count
        elif t == 'Folding':
            faced[id(op)] = max(bets) > bets[op.player_index]
    drop = set()
    for i, op in zip(lines, ops):
        t = type(op).__name__
        if i == len(acts) - 1:
            continue
        if ((t == 'Folding' and faced.get(id(op))) or (t == 'CheckingOrCalling' and not op.amount)) \
                and ch.chance('omit.line', 1, 3):
            drop.add(i)
    if not drop:
        return
    # keep an omitted free check only if the next remaining line is not a betting line of the same player
    for i in sorted(drop):
        who = acts[i].split()[0]
        nxt = next((acts[j] for j in range(i + 1, len(acts)) if j not in drop and not acts[j].lstrip().startswith('#')), None)
        if nxt is None or (acts[i].split()[1] == 'cc' and nxt.split()[0] == who and nxt.split()[1] in ('cc', 'cbr', 'f')):
            drop.discard(i)
    if not drop:
        return
    h2 = dataclasses.replace(hh, actions=[a for i, a in enumerate(acts) if i not in drop])
    ctx.fault('omitted_steps', len(drop))
    if only_build:
        return h2
    end = replay_to_end(roundtrip(h2, 'history with omitted folds/checks')[0], 'history with omitted folds/checks')

    def plain(opslist):
        return [x[:-1] for x in abstract(opslist)[0]]
    if end is None or end.status != st.status or list(end.stacks) != list(st.stacks) or list(end.payoffs) != list(st.payoffs) \
            or plain(end.operations) != plain(st.operations):
        raise Violation('C16.omitted', f'with the lines {[acts[i] for i in sorted(drop)]} left out, the history is completed '
                        f'to stacks {end and end.stacks} and actions {end and plain(end.operations)}; the played hand ended '
                        f'with {st.stacks} after {plain(st.operations)}', rule='omitted', decimal_reloaded_as_int=retyped(st, end))


def respelled_show(ch, st, hh, ctx):
    """The format's other spelling of a full show: 'pN sm -' (show whatever the player holds) in place of 'pN sm <his cards>'.
    A history in which the lines of players who tabled their complete, known hand are respelled must replay to the same
    hand: same shown cards, stacks and payoffs."""
    import dataclasses
    acts = list(hh.actions)
    shows = [op for op in st.operations if type(op).__name__ == 'HoleCardsShowingOrMucking']
    lines = [i for i, a in enumerate(acts) if len(a.split()) > 1 and a.split()[0].startswith('p') and a.split()[1] == 'sm']
    if len(lines) != len(shows):
        return
    changed = 0
    for i, op in zip(lines, shows):
        full = (op.hole_cards and all(op.hole_cards) and not any(c.unknown_status for c in op.hole_cards)
                and len(acts[i].split('#')[0].split()) == 3
                and acts[i].split()[2] == ''.join(map(repr, st.hole_cards[op.player_index] or op.hole_cards)))
        if full and ch.chance('respell.line', 1, 2):
            rest = acts[i].split('#', 1)
            acts[i] = ' '.join(rest[0].split()[:2] + ['-']) + (' #' + rest[1] if len(rest) > 1 else '')
            changed += 1
    if not changed:
        return
    h2 = dataclasses.replace(hh, actions=acts)
    end = replay_to_end(roundtrip(h2, "history with shows respelled 'sm -'")[0], "history with shows respelled 'sm -'")
    compare(st, end, "history with shows respelled 'sm -'")
    ctx.count('shows_respelled', changed)


class ZeroTracker(Monitor):
    """Players whose stack was empty at some point of the hand (also mid-cascade)."""

    def __init__(self):
        self.zeroed = set()

    def on_op(self, world, st, op):
        for i, x in enumerate(st.stacks):
            if not x:
                self.zeroed.add(i)


def inf_variant(ch, st, hh, zeroed, cfg, ctx):
    """Unknown stacks: the format writes a stack nobody knows as `inf` (televised cash games).  Players who never
    ran out of chips get an infinite starting stack.  The history with those stacks must survive the round trip
    (equal object, identical text), and where it is still a legal hand - it is not when some wager of the hand was
    sized by what such a player could call - the loaded history must replay exactly like the unsaved one, and like
    the played hand as far as actions, payoffs and the finite stacks go."""
    import dataclasses
    import math
    from decimal import Decimal
    cands = [i for i in range(len(hh.starting_stacks)) if i not in zeroed]
    chosen = [i for i in cands if ch.chance('inf.who', 1, 2)]
    if not chosen:
        return
    big = Decimal('Infinity') if cfg['chip'] == 'decimal' else math.inf
    stacks = [big if i in chosen else x for i, x in enumerate(hh.starting_stacks)]
    h_inf = dataclasses.replace(hh, starting_stacks=stacks)
    ctx.fault('unknown_stacks')
    h2, _ = roundtrip(h_inf, 'history with unknown (infinite) stacks')
    try:
        direct = replay_to_end(h_inf, 'unsaved')
    except Violation:
        ctx.count('unknown_stacks_make_the_hand_illegal')
        return
    fin = [i for i in range(len(stacks)) if i not in chosen]
    same_hand = (direct is not None and direct.status == st.status and abstract(direct.operations) == abstract(st.operations)
                 and [direct.stacks[i] for i in fin] == [st.stacks[i] for i in fin] and list(direct.payoffs) == list(st.payoffs))
    if not same_hand:
        ctx.count('unknown_stacks_make_the_hand_illegal')
        return
    ctx.count('unknown_stacks_replayed')
    end = replay_to_end(h2, 'history with unknown (infinite) stacks')
    if end is None or end.status != direct.status or [end.stacks[i] for i in fin] != [direct.stacks[i] for i in fin] \
            or list(end.payoffs) != list(direct.payoffs):
        raise Violation('C16.inf', f'history with unknown stacks for players {chosen}: saved, loaded and replayed it ends with '
                        f'stacks {end and end.stacks} payoffs {end and end.payoffs}; replayed without saving with stacks '
                        f'{direct.stacks} payoffs {direct.payoffs}', rule='inf', decimal_reloaded_as_int=retyped(st, end))
    if abstract(end.operations) != abstract(direct.operations):
        raise Violation('C16.inf', 'history with unknown stacks: actions or cards differ after saving and loading',
                        rule='inf_actions')


def run(ch, ctx):
    cfg = gen_config(ch, BIAS)
    hidden_ok = cfg['variant'] in ('FT', 'NT', 'NS', 'PO', 'FO8')
    dealer = ch.choice('c16.dealer', ('engine', 'explicit', 'hidden' if hidden_ok else 'engine'))
    if dealer == 'hidden':
        cfg['autos'] &= ~SHOW_BIT
    world = None
    plan = ch.weighted('c16.plan', (3, 3, 2))          # 0 round trip + replay, 1 + crash_phh, 2 + corrupt_history
    compression = bool(ch.pick('c16.compression', 2))
    fields = {}
    if ch.chance('c16.fields', 2, 3):
        import datetime
        n = cfg['n']
        makers = {
            'author': lambda: gen_text(ch, 'f.author'), 'event': lambda: gen_text(ch, 'f.event'),
            'url': lambda: 'https://x.example/' + gen_text(ch, 'f.url').replace(' ', '_'),
            'venue': lambda: gen_text(ch, 'f.venue'), 'address': lambda: gen_text(ch, 'f.address'),
            'city': lambda: gen_text(ch, 'f.city'), 'region': lambda: gen_text(ch, 'f.region'),
            'postal_code': lambda: gen_text(ch, 'f.postal'), 'country': lambda: gen_text(ch, 'f.country'),
            'time': lambda: datetime.time(ch.pick('f.h', 24), ch.pick('f.m', 60), ch.pick('f.s', 60)),
            'time_zone': lambda: ('UTC', 'America/Toronto', 'Asia/Seoul')[ch.pick('f.tz', 3)],
            'day': lambda: 1 + ch.pick('f.day', 28), 'month': lambda: 1 + ch.pick('f.month', 12),
            'year': lambda: 1990 + ch.pick('f.year', 60),
            'hand': lambda: ch.pick('f.hand', 10**6) if ch.pick('f.hand.kind', 2) else gen_text(ch, 'f.hand.s'),
            'level': lambda: ch.pick('f.level', 40),
            'seats': lambda: [1 + (i * 2 + ch.pick('f.seat0', 3)) % 10 for i in range(n)] if n <= 5 else list(range(1, n + 1)),
            'seat_count': lambda: n + ch.pick('f.seat_count', 4),
            'table': lambda: ch.pick('f.table', 500) if ch.pick('f.table.kind', 2) else gen_text(ch, 'f.table.s'),
            'players': lambda: [gen_text(ch, 'f.player') for _ in range(n)],
            'currency': lambda: ('USD', 'EUR', 'KRW')[ch.pick('f.cur', 3)],
            'currency_symbol': lambda: ('$', '\u20ac', '\u20a9')[ch.pick('f.cursym', 3)],
            'time_limit': lambda: 5 + ch.pick('f.tl', 120),
            'time_banks': lambda: [ch.pick('f.tb', 300) for _ in range(n)],
        }
        for name, make in makers.items():
            if ch.chance('f.use.' + name, 1, 3):
                fields[name] = make()
        for i in range(1 + ch.pick('uf.count', 3)):
            fields['_u%d' % i] = gen_value(ch)
    try:
        zt = ZeroTracker()
        world = World(ch, ctx, cfg, [zt], run_key=run_key_of(ch), dealer=dealer, runout_prefs=(None, 1),
                      commentary_num=2, commentary_fn=gen_commentary, muck_num=1, partial_show=False,
                      chatter_num=ch.choice('c16.chatter', (0, 2, 4)),
                      profile=ch.choice('c16.profile', ('passive', 'balanced', 'balanced', 'aggressive')))
        st = world.state
        cut = None
        cut_at = ch.pick('c16.cut', 10) if plan == 1 else None
        decisions_seen = 0
        while st.status:
            if world.ticks > world.tick_cap:
                raise Stuck('tick cap exceeded')
            player_decision = st.actor_index is not None or st.stander_pat_or_discarder_index is not None
            if plan == 1 and cut is None and player_decision:
                if decisions_seen >= cut_at:
                    cut = crash_phh(world, fields, compression, ctx)
                decisions_seen += 1
            if world.step() is None:
                raise Stuck('no operation available while the hand is not over')
        game = world.game
        hh = HandHistory.from_game_state(game, st, compression, **fields)
        hh2, text = roundtrip(hh, 'terminal history')
        supplied = {k: v for k, v in fields.items() if k.startswith('_')}
        for what, h in (('written', hh), ('read back', hh2)):
            if h.user_defined_fields != supplied:
                raise Violation('C16.user_fields', f'the history {what} carries user-defined fields '
                                f'{sorted(h.user_defined_fields)}, the hand was saved with {sorted(supplied)}', rule='user_fields')
        end = replay_to_end(hh2, 'terminal history')
        compare(st, end, 'terminal history')
        if ch.chance('c16.replay_autos', 1, 2):
            replay_with_fewer_automations(ch, st, hh2, ctx)
        if ch.chance('c16.inf', 1, 3):
            inf_variant(ch, st, hh, zt.zeroed, cfg, ctx)
        if ch.chance('c16.file', 1, 3):
            several_in_one_file(ch, hh, ctx)
        if dealer != 'hidden' and ch.chance('c16.respell', 1, 3):
            respelled_show(ch, st, hh, ctx)
        if dealer != 'hidden' and ch.chance('c16.omit', 1, 2):
            omitted_steps(ch, st, hh, ctx)
        if cut is not None:
            resume(world, cut, ctx)
        if plan == 2:
            corrupt(ch, hh2, ctx)
    except (Violation, EngineCrash, Stuck):
        if world is not None:
            note_trace(world, ctx)
        else:
            ctx.notes['config'] = cfg
        raise
    verbs = tuple(a.split()[1] if a.split() and a.split()[0] != '#' and len(a.split()) > 1 else '#' for a in hh.actions)
    ctx.count('action_lines', len(hh.actions))
    ctx.count('compression_on', compression)
    ctx.count('decimal_chips', cfg['chip'] == 'decimal')
    ctx.count('decimal_normalized_spelling', bool(cfg.get('normalized')))
    ctx.count('unknown_cards', dealer == 'hidden')
    ctx.count('with_fields', bool(fields))
    std_finish(world, ctx, len(hh.actions) >= 8)
    ctx.shape = [cfg['variant'], cfg['chip'], compression, plan, dealer, verbs]


def retyped(st, end):
    """Decimal chips of the played hand came back as int (integral Decimal values are written without a point)."""
    from decimal import Decimal
    played = list(st.starting_stacks) + [op.amount for op in st.operations if hasattr(op, 'amount')]
    again = list(end.starting_stacks) + [op.amount for op in end.operations if hasattr(op, 'amount')]
    return any(isinstance(x, Decimal) for x in played) and any(isinstance(x, int) for x in again)


def compare(st, end, what):
    if end is None:
        raise Violation('C16.replay', f'{what}: replay yielded no state', rule='replay')
    if list(end.stacks) != list(st.stacks) or end.status != st.status:
        raise Violation('C16.stacks', f'{what}: replay ends with stacks {end.stacks} (status {end.status}), the played hand with '
                        f'{st.stacks} (status {st.status})', rule='stacks', decimal_reloaded_as_int=retyped(st, end))
    if list(end.payoffs) != list(st.payoffs):
        raise Violation('C16.stacks', f'{what}: replay payoffs {end.payoffs}, played hand {st.payoffs}', rule='payoffs',
                        decimal_reloaded_as_int=retyped(st, end))
    a, b = abstract(st.operations), abstract(end.operations)
    if a[0] != b[0]:
        i = next((k for k, (x, y) in enumerate(zip(a[0], b[0])) if x != y), min(len(a[0]), len(b[0])))
        raise Violation('C16.actions', f'{what}: player action #{i} differs: played {a[0][i:i + 1]}, replayed {b[0][i:i + 1]}',
                        rule='actions')
    na, nb = notes(st.operations), notes(end.operations)
    if na != nb:
        i = next((k for k, (x, y) in enumerate(zip(na, nb)) if x != y), min(len(na), len(nb)))
        raise Violation('C16.notes', f'{what}: note #{i} (commentary that is not on a player\'s action: on a dealing or chip-moving '
                        f'step or a no-operation) differs: played {na[i:i + 1]}, replayed {nb[i:i + 1]} ({len(na)} vs {len(nb)} notes)',
                        rule='notes')
    if a[1] != b[1] or a[2] != b[2]:
        raise Violation('C16.cards', f'{what}: cards differ: played hole {a[1]} board {a[2]}; replayed hole {b[1]} board {b[2]}',
                        rule='cards')


def crash_phh(world, fields, compression, ctx):
    """Only the bytes of the partial history survive; returns the restored state and the log position."""
    st = world.state
    hh = HandHistory.from_game_state(world.game, st, compression, **fields)
    hh2, text = roundtrip(hh, 'partial history')
    listed = len(hh2.actions)
    restored = None
    seen = 0
    try:
        it = hh2.state_actions
        for state, action in it:
            restored = state
            if action is not None:
                seen += 1
            if seen == listed:
                break
        it.close()
    except Exception as e:      # noqa: BLE001
        raise Violation('C16.partial', f'a partial history ({listed} actions) cannot be replayed: {type(e).__name__}: {e}; '
                        f'actions {hh2.actions}', rule='partial', exc=type(e).__name__)
    ctx.fault('crash_phh')
    return restored, len(st.operations)


def resume(world, cut, ctx):
    restored, at = cut
    st = world.state
    if restored is None:
        return
    # the restored state may already have performed mechanical steps the original had done before the cut
    for op in st.operations[at:]:
        t = type(op).__name__
        if t in MECHANICAL:
            continue
        if t != 'CardBurning' and restored.can_burn_card():
            restored.burn_card('??')        # a burn the original had made before the cut: not an action line, completed
        try:                                # "in the documented way" (unknown card), exactly as the replay iterator does
            apply_record(restored, op)
        except Exception as e:      # noqa: BLE001
            raise Violation('C16.resume', f'after reloading the partial history the remaining record {op_brief(op)} cannot be '
                            f'applied: {type(e).__name__}: {e}', rule='resume', op=t)
    guard = 0
    while restored.status and guard < 200:
        guard += 1
        if restored.can_show_or_muck_hole_cards():
            restored.show_or_muck_hole_cards()
        else:
            break
    if list(restored.stacks) != list(st.stacks) or restored.status:
        raise Violation('C16.resume', f'hand continued from a reloaded partial history ends with stacks {restored.stacks} '
                        f'(status {restored.status}), the uninterrupted hand with {st.stacks}', rule='resume',
                        decimal_reloaded_as_int=retyped(st, restored))


def corrupt(ch, hh, ctx):
    import dataclasses
    actions = list(hh.actions)
    if not actions:
        return
    n = len(hh.starting_stacks)
    bad = ch.choice('corrupt.kind', (f'p{n + 3} f', 'p1 cbr 99999999', 'p1 xyz', f'd dh p{n + 2} AsKs'))
    k = ch.pick('corrupt.at', len(actions))
    actions[k] = bad
    broken = dataclasses.replace(hh, actions=actions)
    ctx.fault('corrupt_history')
    try:
        for _ in broken:
            pass
    except ValueError:
        return
    except Exception:      # noqa: BLE001 - reported, although not as the documented ValueError (the statement only
        ctx.count('corrupt_reported_with_other_exception')        # asks for an error instead of a silent truncation)
        return
    raise Violation('C16.corrupt', f'action {k} of {len(actions)} replaced by {bad!r}, which can never apply, but iterating the '
                    f'history finished without an error (silently truncated)', rule='corrupt')
