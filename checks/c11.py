"""C11 - each predefined variant plays the game its name and documentation say.  DESIGN.md section 5, C11."""
from __future__ import annotations

from .common import (COMPONENTS, EngineCrash, Monitor, Stuck, Violation, World, gen_config, note_trace,
                     run_key_of, std_finish, opseq)
from .c03 import BetMonitor, blinds_by_player
from .c10 import DealMonitor
from .c02 import SettleMonitor
from ref.bet import RBet
from ref.deal import RDeal
from ref.var import VAR
from sim.config import PREDEFINED_CODES, conv, unit_of

import pokerkit
from pokerkit import Mode

ID = 'C11'
LEVEL = 'exploration'
crash_is_violation = False
QUICK_RUNS = 14000
THOROUGH_RUNS = 400000
QUICK_BUDGET = 100
THOROUGH_BUDGET = 1500
RULE = ('one run = one hand played on one of the 12 predefined variants with random parameters (bet sizes incl. a big bet of '
        '1x, 2x or 3x the small bet, antes, blinds/bring-in, 2..max players, stacks, modes, automation subsets), the state '
        'being constructed by calling the game object, or by create_state, positionally or with every parameter passed by '
        'keyword. Static half (configuration check): the '
        'created state\'s deck, hand types, every street (burn, facings, board count, draw, opening rule, bet size, cap) and '
        'betting structure equal the hand-written variant table ref/var.py, and the hand-history code maps to the class. '
        'Dynamic half: the betting model, the dealing model and the settlement model of C03/C10/C02 are instantiated '
        'FROM THE TABLE (not from the state\'s own structure/streets/hand types) and follow the hand, so a variant wired '
        'with the wrong structure, cap, bet size per street, facing or hand type makes the engine accept or refuse '
        'something the table-driven model does not. non-trivial = hand with a bet/raise or a showdown; distinct = '
        'distinct (variant, parameters class, operation-class sequence) digests')
ASSUMPTIONS = [
    'ref/var.py is the trusted statement of the twelve games (small/big bet streets, four-bet cap, facings, openings)',
    'the models of C03, C10 and C02 (and their assumptions) are reused; cards known; a third of the tables take a '
    'percentage rake, on those the settlement model is not attached',
]
BIAS = dict(variants=PREDEFINED_CODES, custom_num=0, chips=('int', 'fraction'), rakes=('none', 'none', 'pct'), sbcs=(1, 1, 1, 2),
            divmods=('default',), ctor_variety=True, big_mults=(2, 2, 2, 1, 3))
STRUCT = {'NL': 'NO_LIMIT', 'PL': 'POT_LIMIT', 'FL': 'FIXED_LIMIT'}


def static_check(cfg, st):
    v = VAR[cfg['variant']]
    cls = getattr(pokerkit, v['cls'])
    code = cfg['variant']

    def fail(what):
        raise Violation('C11.static', f'{v["cls"]}: {what}', variant=code)
    got_deck = frozenset(repr(c) for c in st.deck)
    if got_deck != v['deck'] or len(st.deck) != len(v['deck']):
        fail(f'deck has {len(st.deck)} cards {sorted(got_deck ^ v["deck"])[:6]} differ from the documented deck')
    names = [h.__name__ for h in st.hand_types]
    if names != v['hands']:
        fail(f'hand types {names}, documented {v["hands"]}')
    if st.betting_structure.name != STRUCT[v['structure']]:
        fail(f'betting structure {st.betting_structure.name}, documented {STRUCT[v["structure"]]}')
    if len(st.streets) != len(v['streets']):
        fail(f'{len(st.streets)} streets, documented {len(v["streets"])}')
    amount = {'small': conv(cfg, cfg['bb']), 'big': conv(cfg, cfg['bb'] * cfg.get('big_mult', 2)), 'min': conv(cfg, cfg['bb'])}
    for k, (s, w) in enumerate(zip(st.streets, v['streets'])):
        burn, facings, board, draw, opening, size, cap = w
        have = (s.card_burning_status, tuple(s.hole_dealing_statuses), s.board_dealing_count, s.draw_status,
                s.opening.name, s.min_completion_betting_or_raising_amount, s.max_completion_betting_or_raising_count)
        want = (burn, facings, board, draw, opening, amount[size], cap)
        if have != want:
            fail(f'street {k} is {have}, documented {want}')
    if v['phh'] is not None:
        hh = pokerkit.HandHistory.game_types.get(v['phh'])
        if hh is not cls:
            fail(f'hand-history code {v["phh"]} maps to {hh}')
        if pokerkit.HandHistory.variants.get(cls) != v['phh']:
            fail(f'class maps to hand-history code {pokerkit.HandHistory.variants.get(cls)}, documented {v["phh"]}')
    if (st.bring_in > 0) != (v['forced'] == 'bring_in' and cfg['bring_in'] > 0):
        fail('bring-in / blinds mix-up')


def bet_model_factory(cfg):
    v = VAR[cfg['variant']]
    amount = {'small': conv(cfg, cfg['bb']), 'big': conv(cfg, cfg['bb'] * cfg.get('big_mult', 2)), 'min': conv(cfg, cfg['bb'])}

    def make(st):
        streets = [(opening, amount[size], cap) for (_, _, _, _, opening, size, cap) in v['streets']]
        return RBet(st.player_count, st.starting_stacks, v['structure'], st.mode == Mode.TOURNAMENT, streets,
                    st.bring_in, blinds_by_player(st))
    return make


def deal_model_factory(cfg):
    v = VAR[cfg['variant']]

    def make(st):
        streets = [(burn, facings, board, draw) for (burn, facings, board, draw, _, _, _) in v['streets']]
        return RDeal(st.player_count, streets, st.starting_board_count, len(v['deck']))
    return make


def run(ch, ctx):
    cfg = gen_config(ch, BIAS)
    v = VAR[cfg['variant']]
    bet = BetMonitor(unit_of(cfg), bet_model_factory(cfg), prefix='C11.bet')
    deal = DealMonitor(deal_model_factory(cfg), prefix='C11.deal')
    settle = SettleMonitor(cfg, types=list(v['hands']), prefix='C11.settle')
    world = None
    try:
        # a third of the tables are raked (the betting structure - the pot-sized raise in particular - must not depend on
        # it); the settlement model runs with the rake off, so it follows the unraked tables only
        monitors = [bet, deal, settle] if cfg['rake'] == 'none' else [bet, deal]
        world = World(ch, ctx, cfg, monitors, run_key=run_key_of(ch), muck_num=0, partial_show=False,
                      runout_prefs=(None, 1),
                      profile=ch.choice('c11.profile', ('aggressive', 'balanced', 'balanced', 'passive')))
        static_check(cfg, world.state)
        world.run()
    except (Violation, EngineCrash, Stuck):
        if world is not None:
            note_trace(world, ctx)
        else:
            ctx.notes['config'] = cfg
        raise
    st = world.state
    if world.game is not None and v['phh'] is not None:
        # the hand written as a hand history carries the variant's code, and the game rebuilt from it is this variant
        hh = pokerkit.HandHistory.from_game_state(world.game, st)
        cls = getattr(pokerkit, v['cls'])
        if hh.variant != v['phh']:
            raise Violation('C11.static', f'{v["cls"]}: a hand saved as a hand history gets the variant code {hh.variant!r}, '
                            f'documented {v["phh"]!r}', variant=cfg['variant'])
        g2 = hh.create_game()
        if type(g2) is not cls or frozenset(repr(c) for c in g2.deck) != v['deck'] \
                or [h.__name__ for h in g2.hand_types] != v['hands']:
            raise Violation('C11.static', f'{v["cls"]}: the game rebuilt from its saved hand history is {type(g2).__name__} with '
                            f'{len(g2.deck)} cards and hand types {[h.__name__ for h in g2.hand_types]}', variant=cfg['variant'])
        ctx.count('saved_and_rebuilt')
    seq = opseq(st)
    ctx.count('variant_' + cfg['variant'])
    ctx.count('cap_reached', bet.refusals.get('cap', 0) > 0)
    ctx.count('decisions_compared', bet.compared)
    ctx.count('split_game_two_halves', sum(1 for s in settle.result.get('shapes', []) if s[2] == 1))
    ctx.count('showdowns', 's' in seq)
    ctx.count('raked_tables', cfg['rake'] != 'none')
    ctx.count('constructed_by_' + cfg.get('ctor', 'call'))
    ctx.count('big_bet_is_%dx_small_bet' % cfg.get('big_mult', 2), cfg['variant'] in ('FT', 'FO8', 'F7S', 'F7S8', 'FR', 'F2L3D', 'FB'))
    std_finish(world, ctx, 'r' in seq or 's' in seq)
