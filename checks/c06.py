"""C06 - cards are conserved: each card in exactly one place, dealt from the deck.  DESIGN.md section 5, C06."""
from __future__ import annotations
from collections import Counter

from .common import (COMPONENTS, EngineCrash, Monitor, Stuck, Violation, World, gen_config, note_trace,
                     run_key_of, std_finish, opseq, pk)
from sim.config import AUTOS

from pokerkit import Automation, Card

ID = 'C06'
LEVEL = 'exploration'
crash_is_violation = False
QUICK_RUNS = 20000
THOROUGH_RUNS = 500000
QUICK_BUDGET = 100
THOROUGH_BUDGET = 1500
RULE = ('one run = one simulated hand on decks of 52/36/20/3 cards, every variant incl. user-defined street lists and '
        'deck-exhausting tables (7-8 handed stud to seventh street, 5-6 handed draw games with heavy discarding), the '
        'dealer mixing engine-chosen, counted, explicit known (taken from get_dealable_cards) and unknown ("??") cards, '
        'players revealing explicit cards for unknown ones at showdown; after every logged operation: multiset of known '
        'cards over deck+boards+hands+burns+muck+discards equals the configured deck, engine-chosen cards came from the '
        'deck (or, only when the deck could not cover the deal, from the replenished piles), piles shrink only on '
        'replenish or when an explicit dealable card is named, and fold/kill/muck/burn/discard moved exactly the '
        'documented cards to the documented pile. Fault duplicate_named (1 quiescent point in 12): the same card named twice - by '
        'the dealer in one deal, by a player tabling his hand or discarding - must be refused (for deals and shows: under '
        'warnings-as-errors, the mode in which the engine refuses cards it does not recommend). non-trivial = >= 10 card-moving operations; distinct = distinct '
        '(configuration class, dealer mode, operation-class sequence) digests')
ASSUMPTIONS = [
    'explicit known cards named by the dealer are taken from get_dealable_cards(k), as the documentation asks - except '
    'in the "reserve" dealer mode (fault reserve_card_named), where cards lying in the muck, discard or burn piles are named '
    'although the deck covers the deal, which the engine allows with a warning',
    'unknown cards - "??" and half-known ones such as "A?" or "?s" - are dealt only as burns and face-down hole cards, '
    'and are revealed with explicit cards at showdown',
    'capacity rule: run-out counts are chosen only while the deck can physically serve them',
]
BIAS = dict(custom_num=1, chips=('int',), stack_pool=(5, 8, 13, 20, 40, 100, 200),
            variants=None, ante_kinds=('none', 'uniform'))
EXHAUST = ('F7S', 'F7S8', 'FR', 'F2L3D', 'FB', 'N2L1D', 'XA5', 'X5D', 'NR', 'XSHL')
SHOW_BIT = 1 << AUTOS.index(Automation.HOLE_CARDS_SHOWING_OR_MUCKING)


def places(st):
    c = Counter()
    for pile in (st.deck_cards, st.burn_cards, st.mucked_cards):
        c.update(x for x in pile if x)
    for group in (st.board_cards, st.hole_cards, st.discarded_cards):
        for pile in group:
            c.update(x for x in pile if x)
    return c


class CardMonitor(Monitor):
    def __init__(self):
        self.prev = None

    def snap(self, st):
        return dict(deck=list(st.deck_cards), burn=list(st.burn_cards), muck=list(st.mucked_cards),
                    disc=[list(x) for x in st.discarded_cards], hole=[list(x) for x in st.hole_cards],
                    board=[list(x) for x in st.board_cards], street=st.street_index)

    def fail(self, st, op, what):
        raise Violation('C06.' + what.split(':')[0], f'{what} at operation #{len(st.operations)} {op!r}; '
                        f'deck={len(st.deck_cards)} burn={st.burn_cards} muck={st.mucked_cards} '
                        f'discards={st.discarded_cards} boards={st.board_cards} hands={st.hole_cards}')

    def on_quiescent(self, world):
        if self.prev is None:
            self.prev = self.snap(world.state)      # after construction (already observed op by op)

    def on_op(self, world, st, op):
        full = Counter(st.deck)
        if self.prev is None:
            self.prev = dict(deck=list(st.deck), burn=[], muck=[], disc=[[] for _ in st.streets],
                             hole=[[] for _ in range(st.player_count)], board=[], street=None)
            # first observed operation: the state before it had the whole deck undealt
        now = places(st)
        if now != full:
            extra = now - full
            missing = full - now
            self.fail(st, op, f'multiset: duplicated {dict(extra)} missing {dict(missing)}')
        prev = self.prev
        t = type(op).__name__
        explicit = set()
        if world.in_call is not None:
            for a in world.in_call[1]:
                if isinstance(a, str):
                    explicit |= {c for c in Card.parse(a) if c}
        piles_prev = Counter(prev['burn']) + Counter(prev['muck']) + sum((Counter(d) for d in prev['disc']), Counter())
        piles_now = Counter(st.burn_cards) + Counter(st.mucked_cards) + sum((Counter(d) for d in st.discarded_cards), Counter())
        lost = Counter({c: k for c, k in (piles_prev - piles_now).items() if c})
        dealt = ()
        if t == 'CardBurning':
            dealt = (op.card,)
        elif t in ('HoleDealing', 'BoardDealing'):
            dealt = tuple(op.cards)
        known_dealt = [c for c in dealt if c]
        if t == 'HoleCardsShowingOrMucking' and op.hole_cards:
            # shown cards are produced back and re-consumed; new explicit cards must come from dealable cards
            new = [c for c in op.hole_cards if c and c not in prev['hole'][op.player_index]]
            for c in new:
                if c not in prev['deck'] and c not in piles_prev:
                    self.fail(st, op, f'show: revealed card {c!r} was neither in the deck nor in a pile')
            lost = Counter({c: k for c, k in lost.items() if c not in new})
        if dealt:
            engine_chosen = [c for c in known_dealt if c not in explicit]
            need = len(dealt)
            if engine_chosen:
                if need <= len(prev['deck']):
                    for c in engine_chosen:
                        if c not in prev['deck']:
                            self.fail(st, op, f'source: engine-chosen card {c!r} did not come from the undealt deck '
                                      f'although the deck ({len(prev["deck"])} cards) covered the deal of {need}')
                else:
                    for c in engine_chosen:
                        if c not in prev['deck'] and c not in piles_prev:
                            self.fail(st, op, f'source: engine-chosen card {c!r} came from nowhere')
                    world.ctx.count('replenish_fired')
            in_play_prev = Counter(c for h in prev['hole'] for c in h if c) + Counter(c for b in prev['board'] for c in b if c)
            for c in known_dealt:
                if in_play_prev[c]:
                    self.fail(st, op, f'source: dealt card {c!r} was already in a hand or on a board')
        # piles shrink only on replenish (deck could not cover) or when an explicit dealable card was named
        if lost:
            ok = bool(dealt) and (len(dealt) > len(prev['deck']) or all(c in explicit for c in lost))
            if t == 'HoleCardsShowingOrMucking':
                ok = False if lost else True
            if not ok:
                self.fail(st, op, f'piles: cards {dict(lost)} left burn/muck/discard piles although the deck covered the operation')
        # movement model
        if t in ('Folding', 'HandKilling') or (t == 'HoleCardsShowingOrMucking' and not op.hole_cards):
            i = op.player_index
            moved = prev['hole'][i]
            if st.hole_cards[i]:
                self.fail(st, op, f'move: player {i} keeps cards after fold/kill/muck')
            if list(st.mucked_cards) != prev['muck'] + moved:
                self.fail(st, op, f'move: muck is {st.mucked_cards}, expected previous muck + {moved}')
        elif t == 'CardBurning':
            # known cards only: unknown placeholders ("??", "A?") stand for no particular card, the engine may drop one
            # of them from a pile when another unknown card is consumed, and the statement speaks about known cards
            now_known = [c for c in st.burn_cards if c]
            burnt = [op.card] if op.card else []
            want = [c for c in prev['burn'] if c] + burnt
            if now_known != want and now_known != burnt:          # second form: the piles were emptied by a replenish
                self.fail(st, op, f'move: burn pile is {st.burn_cards}, expected the known cards {want}')
        elif t == 'StandingPatOrDiscarding':
            i = op.player_index
            k = st.street_index
            if Counter(prev['hole'][i]) - Counter(op.cards) != Counter(st.hole_cards[i]):
                self.fail(st, op, f'move: hand of player {i} after discarding is not the previous hand minus the discards')
            if st.discarded_cards[k] != prev['disc'][k] + list(op.cards):
                self.fail(st, op, f'move: discards of street {k} are {st.discarded_cards[k]}, expected previous + {list(op.cards)}')
            if any(c and c not in prev['hole'][i] for c in op.cards):
                self.fail(st, op, 'move: discarded a card the player did not hold')
        elif t == 'HoleDealing':
            i = op.player_index
            if st.hole_cards[i] != prev['hole'][i] + list(op.cards):
                self.fail(st, op, f'move: hand of player {i} is not the previous hand + the dealt cards')
        elif t == 'BoardDealing':
            flat_prev = sorted(map(repr, (c for b in prev['board'] for c in b)))
            flat_now = sorted(map(repr, (c for b in st.board_cards for c in b)))
            if sorted(flat_prev + [repr(c) for c in op.cards]) != flat_now:
                self.fail(st, op, 'move: board cards are not the previous board cards + the dealt cards')
        self.prev = self.snap(st)


class DuplicateNamer(Monitor):
    """Fault duplicate_named: at a dealing point the dealer asks - with warnings as errors, the mode in which the engine
    refuses cards it does not recommend - for the SAME dealable card twice in one deal.  A yes would put two copies of a
    known card in play."""

    def on_quiescent(self, world):
        st = world.state
        ch = world.ch
        if not st.status or not ch.chance('dup.try', 1, 12):
            return
        import warnings
        target = None
        if st.can_deal_hole():
            j = st.hole_dealee_index
            if len(st.hole_dealing_statuses[j]) >= 2:
                target = ('can_deal_hole', 'deal_hole')
        elif st.can_deal_board() and (st.board_dealing_count or 0) >= 2:
            target = ('can_deal_board', 'deal_board')
        elif st.can_show_or_muck_hole_cards():
            # a player names one of his own known cards twice when he tables his hand: the hand would hold two copies of it
            # (and the card it replaces would go back to the deck)
            j = st.showdown_index
            own = [c for c in st.hole_cards[j] if not c.unknown_status]
            if len(own) >= 2 and len(own) == len(st.hole_cards[j]):
                k = ch.pick('dup.own', len(own))
                arg = ''.join(repr(own[k]) if i == (k + 1) % len(own) else repr(c) for i, c in enumerate(own))
                world.ctx.fault('duplicate_named')
                world.ctx.count('duplicate_named_in_a_show')
                with warnings.catch_warnings():
                    warnings.simplefilter('error')
                    if st.can_show_or_muck_hole_cards(arg):
                        raise Violation('C06.duplicate_named', f'show_or_muck_hole_cards({arg!r}) by player {j} holding {own} - one of '
                                        f'his cards named twice - is accepted with warnings as errors: two copies of {own[k]!r} '
                                        f'would be in play', rule='duplicate_named', op='show')
            return
        elif st.can_stand_pat_or_discard():
            j = st.stander_pat_or_discarder_index
            own = [c for c in st.hole_cards[j] if not c.unknown_status]
            if own:
                c = own[ch.pick('dup.discard', len(own))]
                world.ctx.fault('duplicate_named')
                world.ctx.count('duplicate_named_in_a_discard')
                if st.can_stand_pat_or_discard(repr(c) + repr(c)):
                    raise Violation('C06.duplicate_named', f'stand_pat_or_discard({repr(c) * 2!r}) by player {j} holding {own} is '
                                    f'accepted: a card he holds once would be discarded twice', rule='duplicate_named', op='discard')
            return
        if target is None:
            return
        pool = sorted(st.get_dealable_cards(2), key=repr)
        if not pool:
            return
        c = pool[ch.pick('dup.card', len(pool))]
        arg = repr(c) + repr(c)
        world.ctx.fault('duplicate_named')
        with warnings.catch_warnings():
            warnings.simplefilter('error')
            if getattr(st, target[0])(arg):
                raise Violation('C06.duplicate_named', f'{target[1]}({arg!r}) - the same card twice in one deal - is accepted with '
                                f'warnings as errors: two copies of {c!r} would be in play', rule='duplicate_named')


def replenish_refused(world, crash):
    """An engine-chosen burn or deal was refused for lack of cards although deck + burns + muck + discards hold
    enough cards that are not in play: the deck was not replenished when it ran out.  The refused operation is the
    innermost burn/deal frame of the traceback (it may be a step of the automation cascade of the call that was made)."""
    if 'not enough cards' not in str(crash.exc):
        return None
    st = world.state
    frame = None
    tb = crash.exc.__traceback__
    while tb is not None:
        f = tb.tb_frame
        if f.f_code.co_name in ('burn_card', 'deal_hole', 'deal_board') and '/pokerkit/' in f.f_code.co_filename:
            frame = f
        tb = tb.tb_next
    if frame is None:
        return None
    name = frame.f_code.co_name
    arg = frame.f_locals.get('card' if name == 'burn_card' else 'cards')
    if name == 'burn_card' and arg is None:
        need = 1
    elif name == 'deal_hole' and (arg is None or isinstance(arg, int)):
        need = arg or 1
    elif name == 'deal_board' and (arg is None or isinstance(arg, int)):
        need = arg or (st.board_dealing_count or 1)
    else:
        return None
    have = len(st.deck_cards) + len(st.burn_cards) + len(st.mucked_cards) + sum(len(d) for d in st.discarded_cards)
    if have >= need:
        return (f'{name}({"" if arg is None else arg}) was refused ("{crash.exc}") although {have} cards are not in play: deck '
                f'{len(st.deck_cards)}, burns {len(st.burn_cards)}, muck {len(st.mucked_cards)}, discards '
                f'{[len(d) for d in st.discarded_cards]}; {need} needed')
    return None


def run(ch, ctx):
    bias = dict(BIAS)
    exhaust = ch.chance('c06.exhaust', 1, 2)
    if exhaust:
        bias['variants'] = EXHAUST
        bias['min_players'] = 5
        # royal hold'em with up to 8 players: the 20-card deck then runs out exactly (16 hole cards, a burn and the
        # flop) and the reserve holds a single card; hands that physically cannot be completed end as aborted runs
        bias['max_players_by_variant'] = {'NR': 8}
    cfg = gen_config(ch, bias)
    family_draw = cfg['variant'] in ('N2L1D', 'F2L3D', 'FB', 'X5D', 'XA5', 'XDM')
    dealer = ch.choice('c06.dealer', ('engine', 'explicit', 'counted', 'hidden', 'explicit', 'reserve'))
    if dealer == 'hidden':
        v = cfg['variant']
        hole = {'PO': 4, 'FO8': 4, 'F7S': 7, 'F7S8': 7, 'FR': 7, 'XSHL': 7, 'X5S': 5, 'XO5': 5}.get(v, 2)
        if v == 'XHE':
            hole = cfg['custom']['hole']
        board = 0 if v in ('F7S', 'F7S8', 'FR', 'XSHL', 'X5S') else 5 * cfg['sbc'] * 3
        size = {'NS': 36, 'NR': 20}.get(v, 52)
        if family_draw or v == 'XKUHN' or cfg['n'] * hole + board + 6 > size:
            dealer = 'explicit'     # revealing real cards for every unknown one must stay physically possible
        else:
            cfg['autos'] &= ~SHOW_BIT
    mon = CardMonitor()
    world = None
    try:
        world = World(ch, ctx, cfg, [mon, DuplicateNamer()], run_key=run_key_of(ch), dealer=dealer,
                      profile=ch.choice('c06.profile', ('passive', 'passive', 'balanced')), muck_num=1)
        if exhaust and family_draw:
            pass
        world.run()
    except EngineCrash as c:
        if world is not None:
            note_trace(world, ctx)
            refused = replenish_refused(world, c)
            if refused:
                raise Violation('C06.replenish', refused, rule='replenish_refused')
        else:
            ctx.notes['config'] = cfg
        raise
    except (Violation, Stuck):
        if world is not None:
            note_trace(world, ctx)
        else:
            ctx.notes['config'] = cfg
        raise
    st = world.state
    seq = opseq(st)
    moves = sum(seq.count(c) for c in 'uhdxfls')
    ctx.count('deck_%d' % len(st.deck))
    ctx.count('dealer_' + dealer)
    ctx.count('stud_fallback_fired', any(st.board_cards) and cfg['variant'] in ('F7S', 'F7S8', 'FR', 'X5S', 'XSHL'))
    ctx.count('show_with_new_cards', ctx.counts.get('revealed_unknown_cards', 0) > 0)
    std_finish(world, ctx, moves >= 10)
    ctx.shape.append(dealer)
