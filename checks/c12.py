"""C12 - automatic mucking and hand killing never cost a player chips he would have won.  DESIGN.md section 5, C12."""
from __future__ import annotations

from .common import (COMPONENTS, EngineCrash, Monitor, Stuck, Violation, World, gen_config, note_trace,
                     run_key_of, std_finish, opseq, op_brief)
from sim import boot
from sim.config import build
from sim.play import cards_str
from sim.snapshot import apply_record, snapshot

from fractions import Fraction
from ref import settle as rs
from .c02 import RigWorld

from pokerkit import Mode

ID = 'C12'
LEVEL = 'exploration'
crash_is_violation = False
QUICK_RUNS = 12000
THOROUGH_RUNS = 350000
QUICK_BUDGET = 100
THOROUGH_BUDGET = 1500
RULE = ('one run = a pair of executions: AUTO, a simulated hand (all variants incl. hi-lo split, side pots, 1-2 boards, '
        '1-3 run-outs) in which every show/muck decision is left to the engine (default argument or automation) and '
        'hands are killed by the engine; and TWIN, the same history re-applied record by record to a fresh state in '
        'which every player tables his full hand whenever AUTO logged a show-or-muck for him, the engine then killing, '
        'pushing and pulling whatever it decides. Final payoffs must be equal, every player awarded chips in TWIN was '
        'neither mucked nor killed in AUTO, and - fault injection - at every showdown state of a tournament-mode hand a '
        'partial show is requested for each player still to show and must be refused without changing the state. '
        'Independently of the engine\'s own can-win test, the settlement model (ref/settle.py with ref/evalhand.py) is '
        'evaluated with every player who did not fold tabling the cards he held when the showdown began: a player the '
        'engine mucked or killed must be owed nothing there, and what the engine pushed must equal that settlement '
        '(exactly under exact division, within the odd chips otherwise). A third of the runs seat short stacks (side '
        'pots), a third play hi-lo / multi-board games. '
        'non-trivial = showdown with >= 2 players and at least one automatic muck or kill; distinct = distinct '
        '(configuration class, operation-class sequence) digests')
ASSUMPTIONS = [
    'cards are known; no voluntary mucks or partial shows are played in AUTO (they are choices, not engine decisions)',
    'TWIN re-applies the recorded cards, so both executions see the same deal',
]
BIAS = dict(custom_num=1, chips=('int', 'fraction'), rakes=('none',), sbcs=(1, 1, 2), min_players=2,
            stack_pool=(20, 40, 40, 100, 100, 200, 8, 13))


class TableAll(Monitor):
    """Independent statement of "every remaining player tables his full hand": R-SETTLE (ref/settle.py, R-EVAL hands)
    over the players who did not fold, with the cards they held when the showdown began.  Unlike the twin it does
    not use the engine's own can-win test, so it also sees a defect that twin and original share."""

    def __init__(self, cfg, prefix='C12'):
        self.cfg = cfg
        self.prefix = prefix
        self.init = False

    def start(self, st):
        self.init = True
        n = self.n = st.player_count
        self.contrib = [Fraction(0)] * n
        self.antes = [Fraction(0)] * n
        self.ante_bets = [Fraction(0)] * n
        self.collections = 0
        self.folded = [False] * n
        self.hands = [[] for _ in range(n)]
        self.mucked = []
        self.killed = []
        self.pushed = [Fraction(0)] * n
        self.unknown = False
        self.tabled = set()

    def on_op(self, world, st, op):
        if not self.init:
            self.start(st)
        t = type(op).__name__
        n = self.n
        if t == 'AntePosting':
            self.ante_bets[op.player_index] += Fraction(op.amount)
        elif t == 'BetCollection':
            first = self.collections == 0 and any(self.ante_bets)
            for i in range(n):
                self.contrib[i] += Fraction(op.bets[i])
                if first:
                    self.antes[i] = Fraction(op.bets[i])
            self.ante_bets = [Fraction(0)] * n
            self.collections += 1
        elif t == 'Folding':
            self.folded[op.player_index] = True
        elif t == 'HoleCardsShowingOrMucking':
            if op.hole_cards:
                self.hands[op.player_index] = [c for c in op.hole_cards if c]       # a partial show: the cards tabled
                self.tabled.add(op.player_index)
            else:
                self.mucked.append(op.player_index)
        elif t == 'HandKilling':
            self.killed.append(op.player_index)
        elif t == 'ChipsPushing':
            for i in range(n):
                self.pushed[i] += Fraction(op.amounts[i])
        if t in ('HoleDealing', 'StandingPatOrDiscarding', 'BoardDealing', 'CardBurning'):
            for i in range(n):
                if st.hole_cards[i] and not self.folded[i] and i not in self.mucked and i not in self.killed:
                    self.hands[i] = list(st.hole_cards[i])

    def on_end(self, world):
        st = world.state
        if not self.init or not any(self.pushed):
            return
        n = self.n
        live = [not f for f in self.folded]
        if sum(live) < 2:
            return
        if any(c.unknown_status for i in range(n) if live[i] and i not in self.tabled for c in self.hands[i]):
            return
        boards = [list(st.get_board_cards(b)) for b in st.board_indices]
        types = [h.__name__ for h in st.hand_types]
        # a player who tabled only part of his cards (the scheduler's partial show) and whose tabled cards form no hand on any
        # board for any hand type has given his hand up: he is out of the hand and his chips are dead money, like a folder's
        # (otherwise a pot layer only he is eligible for would have no taker)
        keys = rs.hand_keys(types, self.hands, boards or [[]], [i for i in range(n) if live[i]])
        for i in range(n):
            if live[i] and i in self.tabled and all(k is None for (j, _, _), k in keys.items() if j == i):
                live[i] = False
                world.ctx.count('partial_show_without_a_hand')
        if sum(live) < 2:
            return
        layers = rs.layers_of(self.contrib, self.antes, live, st.ante_trimming_status)
        award = rs.settle(layers, live, types, self.hands, boards)
        world.ctx.count('table_all_settlements')
        out = sorted(set(self.mucked + self.killed))
        for i in out:
            if award[i] > 0:
                raise Violation(self.prefix + '.lost', f'player {i} was {"mucked" if i in self.mucked else "killed"} by the engine but with '
                                f'every remaining player tabling his hand he wins {award[i]}: hands '
                                f'{[(j, self.hands[j]) for j in range(n) if live[j]]} boards {boards} pot layers '
                                f'{[(str(a), e) for a, e in layers]}', rule='lost')
        exact = self.cfg['divmod'] == 'exact'        # otherwise every sub-split may leave odd chips with the first winner
        if exact:
            if self.pushed != award:
                raise Violation(self.prefix + '.award', f'the engine pushed {[str(x) for x in self.pushed]}; every remaining player tabling '
                                f'his hand gives {[str(x) for x in award]}', rule='award')
        else:
            nb, nt, k = len(boards), len(types), sum(live)
            slack = len(layers) * ((nb - 1) + nb * (nt - 1) + nb * nt * (k - 1))
            for i in range(n):
                if abs(self.pushed[i] - award[i]) > slack:
                    raise Violation(self.prefix + '.award', f'player {i} is pushed {self.pushed[i]}, every remaining player tabling his '
                                    f'hand gives {award[i]} (allowed deviation {slack} odd chips)', rule='award')


class PartialShowAdversary(Monitor):
    def __init__(self):
        self.requests = 0

    def on_quiescent(self, world):
        st = world.state
        if st.mode != Mode.TOURNAMENT or not st.status or st.street is None or not st.showdown_indices:
            return
        if not (st.all_in_status or st.street is st.streets[-1]):
            return
        for i in list(st.showdown_indices):
            held = [c for c in st.hole_cards[i] if c]
            for m in range(1, len(held)):
                arg = cards_str(held[:m])
                before = snapshot(st)
                self.requests += 1
                world.ctx.fault('bad_request')
                ok = st.can_show_or_muck_hole_cards(arg, i)
                refused = False
                try:
                    if ok:
                        raise Violation('C12.partial', f'tournament mode, {"all-in" if st.all_in_status else "final"} '
                                        f'showdown: player {i} may table only {arg} of {cards_str(held)}', rule='partial')
                    st.show_or_muck_hole_cards(arg, i)
                except ValueError:
                    refused = True
                if not refused:
                    raise Violation('C12.partial', f'tournament mode: the partial show {arg} by player {i} was accepted',
                                    rule='partial')
                if snapshot(st) != before:
                    raise Violation('C12.partial', 'a refused partial show changed the state', rule='partial_mutation')


def twin_check(world, ctx):
    st = world.state
    log = list(st.operations)
    boot.set_run_key(world.run_key + '-twin')
    _, twin = build(world.cfg, 0)
    boot.set_run_key(world.run_key)
    forced_shows = 0
    for k, op in enumerate(log):
        t = type(op).__name__
        if t in ('HandKilling', 'ChipsPushing', 'ChipsPulling'):
            continue
        while twin.can_kill_hand():
            twin.kill_hand()            # (cannot happen before the last showdown; kept for robustness)
        try:
            if t == 'HoleCardsShowingOrMucking':
                if not op.hole_cards:
                    forced_shows += 1
                twin.show_or_muck_hole_cards(True, op.player_index)
            else:
                apply_record(twin, op)
        except Exception as e:      # noqa: BLE001
            raise Violation('C12.twin', f'the show-everything twin could not follow the history at record #{k} '
                            f'{op_brief(op)}: {type(e).__name__}: {e}', op=t)
    guard = 0
    while twin.status:
        guard += 1
        if guard > 500:
            raise Violation('C12.twin', 'the show-everything twin does not finish')
        if twin.can_kill_hand():
            twin.kill_hand()
        elif twin.can_push_chips():
            twin.push_chips()
        elif twin.can_pull_chips():
            twin.pull_chips()
        elif twin.can_show_or_muck_hole_cards():
            twin.show_or_muck_hole_cards(True)
        else:
            raise Violation('C12.twin', f'the show-everything twin is stuck after {opseq(twin)}')
    if list(twin.payoffs) != list(st.payoffs):
        mucked = [op.player_index for op in log if type(op).__name__ == 'HoleCardsShowingOrMucking' and not op.hole_cards]
        killed = [op.player_index for op in log if type(op).__name__ == 'HandKilling']
        raise Violation('C12.payoffs', f'automatic decisions give payoffs {st.payoffs}, every player tabling his hand gives '
                        f'{twin.payoffs}; automatically mucked {mucked}, killed {killed}; hands '
                        f'{[(i, h) for i, h in enumerate(twin.hole_cards) if h]} boards '
                        f'{[list(twin.get_board_cards(b)) for b in twin.board_indices]}', rule='payoffs')
    return forced_shows


def run(ch, ctx):
    bias = dict(BIAS)
    if ch.chance('c12.short', 1, 3):
        # side pots: one or two players are short, so that a hand can be live for one pot and dead for another
        bias['stack_pool'] = (1, 2, 3, 5, 40, 100, 100, 200)
        bias['min_players'] = 3
        ctx.count('short_stack_runs')
    if ch.chance('c12.split', 1, 3):
        bias['variants'] = ('FO8', 'F7S8', 'XO5', 'XSHL', 'PO', 'NT')     # hi-lo and several boards / run-outs
        bias['sbcs'] = (1, 2, 2)
    elif ch.chance('c12.lowball', 1, 4):
        bias['variants'] = ('FB', 'FR', 'F2L3D', 'N2L1D', 'XA5')          # low games: small badugis, tied lows
        ctx.count('lowball_focus_runs')
    cfg = gen_config(ch, bias)
    if cfg['chip'] == 'fraction':
        cfg['divmod'] = 'exact'
    adv = PartialShowAdversary()
    table = TableAll(cfg)
    world = None
    run_key = run_key_of(ch)
    try:
        world = RigWorld(ch, ctx, cfg, [adv, table], run_key=run_key, muck_num=0, partial_show=False,
                         profile=ch.choice('c12.profile', ('passive', 'passive', 'balanced')),
                         dealer=ch.choice('c12.dealer', ('engine', 'explicit', 'rigged', 'rigged')))      # rigged: ties,
        #                 counterfeited lows, suited hands sharing ranks, blocked badugi cards (dealer of C02)
        world.run_key = run_key
        world.run()
        forced = twin_check(world, ctx)
    except (Violation, EngineCrash, Stuck):
        if world is not None:
            note_trace(world, ctx)
        else:
            ctx.notes['config'] = cfg
        raise
    st = world.state
    seq = opseq(st)
    mucks = sum(1 for op in st.operations if type(op).__name__ == 'HoleCardsShowingOrMucking' and not op.hole_cards)
    kills = seq.count('l')
    ctx.count('automatic_mucks', mucks)
    ctx.count('automatic_kills', kills)
    ctx.count('showdown_hands', 's' in seq)
    ctx.count('partial_show_requests', adv.requests)
    ctx.count('hi_lo', len(st.hand_types) > 1)
    ctx.count('multi_board', st.board_count > 1)
    std_finish(world, ctx, 's' in seq and (mucks + kills) > 0)
