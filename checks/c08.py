"""C08 - query, verifier and operation agree; a refused operation changes nothing.  DESIGN.md section 5, C08."""
from __future__ import annotations
import copy
import warnings

from .common import (COMPONENTS, EngineCrash, Monitor, Stuck, Violation, World, gen_config, note_trace,
                     run_key_of, std_finish, opseq)
from sim import boot
from sim.play import cards_str, where_of
from sim.snapshot import snapshot, diff, derived

from pokerkit import Automation, Card, Mode

ID = 'C08'
LEVEL = 'fault_enumeration'
crash_is_violation = False
query_crash_is_violation = True      # a query or property that raises while the scheduler reads it: 'it never raises'
QUICK_RUNS = 2600
THOROUGH_RUNS = 40000
QUICK_BUDGET = 110
THOROUGH_BUDGET = 1500
RULE = ('one run = one simulated hand (all variants, automation subsets, modes) with an adversary that, at '
        'scheduler-chosen states (biased to right after phase changes and raises), enumerates EVERY operation with every '
        'argument class - default, each player index 0..n-1, amounts around every bound, counts -3/0/1/2/3/None, '
        'right / too many / in-play / unknown cards, held / not-held discards, True/False/None/partial/too-many/foreign '
        'shown cards - under both warning modes (shown, raised as errors). Per request: the query returns a bool '
        'without raising and changes nothing; the verifier returns or raises ValueError/UserWarning only and changes '
        'nothing; query == verifier == operation; a refused operation (fired at the REAL state, play continues) raises '
        'only ValueError (UserWarning in error mode) and leaves every field and derived query unchanged; an accepted '
        'one (fired at a deep copy) succeeds and is applied to the player the explicit index names. evaluations = '
        'requests issued; non-trivial = requests at states where the hand is live; distinct = distinct (operation, '
        'argument class, phase, outcome) tuples x configuration class digests. Fault kinds: bad_request, warn_flip, and '
        'rng_flip - in half of the attacks the shuffle seam is re-keyed between the query, the verifier and the operation of '
        'each request, so an answer that depends on how a replenished deck happens to be shuffled shows as a disagreement. The '
        'no-operation counts as an operation: can_no_operate/verify_no_operation/no_operate must agree and the operation must add '
        'exactly one NoOperation record and change nothing else. One run in 8 sits at a deck-exhausting table (6-8 handed stud and draw '
        'games, as in C06) and a state whose deck cannot cover the deal that is due is always attacked, with the request class '
        '"all of the deck plus cards of the reserve"; 3 runs in 16 of the tables with antes are forced-bet all-in tables (stacks no '
        'larger than the ante, so the first betting round never opens) and most of their states are attacked. In a third of the attacks '
        'every public read-only property and getter is read for every player, board and hand type and must leave the state unchanged')
ASSUMPTIONS = [
    'capacity rule (as C06/C07): tables whose card demand exceeds the whole deck are not seated',
    'only documented argument types; player indices stay within 0..n-1',
    'unknown cards ("??") are requested only where nothing has to read them (burns, face-down hole cards): dealing them '
    'as up-cards or board cards leaves the precondition of every showdown property (DESIGN.md C08 scope bound)',
    'accepted requests other than the scheduler\'s own step are fired at a deep copy; copy fidelity is C15\'s business',
]
BIAS = dict(custom_num=1, max_players=6, chips=('int', 'int', 'fraction'), forced_allin_num=3)

OPS = {
    'post_ante': ('can_post_ante', 'verify_ante_posting'),
    'collect_bets': ('can_collect_bets', 'verify_bet_collection'),
    'post_blind_or_straddle': ('can_post_blind_or_straddle', 'verify_blind_or_straddle_posting'),
    'burn_card': ('can_burn_card', 'verify_card_burning'),
    'deal_hole': ('can_deal_hole', 'verify_hole_dealing'),
    'deal_board': ('can_deal_board', 'verify_board_dealing'),
    'stand_pat_or_discard': ('can_stand_pat_or_discard', 'verify_standing_pat_or_discarding'),
    'fold': ('can_fold', 'verify_folding'),
    'check_or_call': ('can_check_or_call', 'verify_checking_or_calling'),
    'post_bring_in': ('can_post_bring_in', 'verify_bring_in_posting'),
    'complete_bet_or_raise_to': ('can_complete_bet_or_raise_to', 'verify_completion_betting_or_raising_to'),
    'select_runout_count': ('can_select_runout_count', 'verify_runout_count_selection'),
    'show_or_muck_hole_cards': ('can_show_or_muck_hole_cards', 'verify_hole_cards_showing_or_mucking'),
    'kill_hand': ('can_kill_hand', 'verify_hand_killing'),
    'push_chips': ('can_push_chips', 'verify_chips_pushing'),
    'pull_chips': ('can_pull_chips', 'verify_chips_pulling'),
    'no_operate': ('can_no_operate', 'verify_no_operation'),
}
INDEXED = {'post_ante': 0, 'post_blind_or_straddle': 0, 'deal_hole': 1, 'select_runout_count': 1,
           'show_or_muck_hole_cards': 1, 'kill_hand': 0, 'pull_chips': 0}


def requests(world):
    """All (operation, args, argument-class label) requests for the current state."""
    st = world.state
    n = st.player_count
    u = world.unit
    out = []
    idx = [None] + list(range(n))
    for i in idx:
        tag = 'default' if i is None else 'player'
        a = () if i is None else (i,)
        out.append(('post_ante', a, tag))
        out.append(('post_blind_or_straddle', a, tag))
        out.append(('kill_hand', a, tag))
        out.append(('pull_chips', a, tag))
    for name in ('collect_bets', 'fold', 'check_or_call', 'post_bring_in', 'push_chips', 'no_operate'):
        out.append((name, (), 'default'))
    # amounts around every bound
    lo = st.min_completion_betting_or_raising_to_amount
    hi = st.max_completion_betting_or_raising_to_amount
    pot = st.pot_completion_betting_or_raising_to_amount
    amounts = [(None, 'default'), (u * 0, 'zero'), (-u, 'negative')]
    if lo is not None:
        ai = st.actor_index
        allin = st.stacks[ai] + st.bets[ai]
        for base, lab in ((lo, 'min'), (pot, 'pot'), (hi, 'max'), (allin, 'allin')):
            for d, dl in ((-u, '-u'), (u * 0, ''), (u, '+u')):
                amounts.append((base + d, lab + dl))
        amounts.append(((lo + hi) / 2 if not isinstance(lo, int) else (lo + hi) // 2, 'mid'))
    else:
        bb = world.cfg['bb'] * u
        amounts += [(u, 'unit'), (bb, 'bb'), (bb * 2, '2bb'), (max(st.stacks), 'stack')]
    for a, lab in amounts:
        out.append(('complete_bet_or_raise_to', () if a is None else (a,), 'amount:' + lab))
    # run-out counts x players
    for c in (None, -3, 0, 1, 2, 3):
        for i in idx:
            a = (() if c is None else (c,)) if i is None else (c, i)
            out.append(('select_runout_count', a, f'count:{c}' + ('' if i is None else '+player')))
    # cards
    dealable = sorted(st.get_dealable_cards(), key=repr)
    in_play = sorted((c for c in st.cards_in_play), key=repr)
    ch = world.ch

    def some(pool, k):
        pool = list(pool)
        got = []
        for _ in range(k):
            if not pool:
                break
            got.append(pool.pop(ch.pick('adv.card', len(pool))))
        return got

    reserve = sorted((c for c in list(st.burn_cards) + list(st.mucked_cards) + [c for d in st.discarded_cards for c in d]
                      if not c.unknown_status), key=repr)
    deck_known = sorted((c for c in st.deck_cards if not c.unknown_status), key=repr)

    def deck_plus_reserve(k):
        """The deck is short of k cards: name all of it plus cards of the reserve (burns, muck, discards), which the
        documentation makes dealable exactly then."""
        short = k - len(st.deck_cards)
        if short <= 0 or len(deck_known) != len(st.deck_cards) or len(reserve) < short:
            return None
        return cards_str(deck_known + some(reserve, short))

    one = some(dealable, 1)
    burn_args = [((), 'default')]
    if one:
        burn_args.append(((cards_str(one),), 'dealable'))
    two = some(dealable, 2)
    if len(two) == 2:
        burn_args.append(((cards_str(two),), 'too_many'))
    if in_play:
        burn_args.append(((cards_str(some(in_play, 1)),), 'in_play'))
    burn_args.append((('??',), 'unknown'))
    # card text that is not a sequence of cards: refusals, never another exception
    malformed = ['', 'A', 'AsK', 'Xx', 'asks', '2 c', '?', '2c3 c', 'As  K s']
    bad = malformed[ch.pick('adv.malformed', len(malformed))]
    burn_args.append(((bad,), 'malformed'))
    twice = cards_str(one + one) if one else None
    for a, lab in burn_args:
        out.append(('burn_card', a, 'card:' + lab))
    # hole dealing: counts and cards x players
    for i in idx:
        pend = None
        j = st.hole_dealee_index if i is None else i
        if j is not None:
            pend = list(st.hole_dealing_statuses[j])
        k = len(pend) if pend else 1
        variants = [(None, 'default'), (0, 'count0'), (1, 'count1'), (k, 'count_all'), (k + 1, 'count_over')]
        full = some(dealable, k)
        if len(full) == k:
            variants.append((cards_str(full), 'cards_all'))
        over = some(dealable, k + 1)
        if len(over) == k + 1:
            variants.append((cards_str(over), 'cards_over'))
        dpr = deck_plus_reserve(k)
        if dpr:
            variants.append((dpr, 'cards_deck_plus_reserve'))
        if in_play:
            variants.append((cards_str(some(in_play, 1)), 'in_play'))
        variants.append((bad, 'malformed'))
        if twice and k >= 2:
            variants.append((twice, 'same_card_twice'))
        if pend and not pend[0] and Automation.HOLE_CARDS_SHOWING_OR_MUCKING not in st.automations:
            # scope bound: an unknown down card only where nothing has to read it - with automated showing the
            # cascade following the last deal would have to table the unknown card
            variants.append(('??', 'unknown_down'))
        for v, lab in variants:
            if i is None:
                a = () if v is None else (v,)
            else:
                a = (v, i)
            out.append(('deal_hole', a, lab + ('' if i is None else '+player')))
    bc = st.board_dealing_count or 1
    variants = [(None, 'default'), (0, 'count0'), (1, 'count1'), (bc, 'count_all'), (bc + 1, 'count_over')]
    full = some(dealable, bc)
    if len(full) == bc:
        variants.append((cards_str(full), 'cards_all'))
    over = some(dealable, bc + 1)
    if len(over) == bc + 1:
        variants.append((cards_str(over), 'cards_over'))
    dpr = deck_plus_reserve(bc)
    if dpr:
        variants.append((dpr, 'cards_deck_plus_reserve'))
    if in_play:
        variants.append((cards_str(some(in_play, 1)), 'in_play'))
    variants.append((bad, 'malformed'))
    if twice and bc >= 2:
        variants.append((twice, 'same_card_twice'))
    for v, lab in variants:
        out.append(('deal_board', () if v is None else (v,), lab))
    # discards
    di = st.stander_pat_or_discarder_index
    held = [c for c in (st.hole_cards[di] if di is not None else st.hole_cards[0]) if c]
    variants = [((), 'pat')]
    if held:
        variants.append((cards_str(some(held, 1)), 'held1'))
        variants.append((cards_str(held), 'held_all'))
        variants.append((cards_str(held[:1] * 2), 'held_twice'))        # one held card named twice: not a set of his cards
    if one:
        variants.append((cards_str(one), 'not_held'))
    variants.append((bad, 'malformed'))
    for v, lab in variants:
        out.append(('stand_pat_or_discard', () if v == () else (v,), lab))
    # showing
    for i in idx:
        j = i
        if j is None:
            j = st.showdown_index
        own = [c for c in st.hole_cards[j]] if j is not None else []
        known = [c for c in own if c]
        variants = [(None, 'default'), (True, 'true'), (False, 'false'), (bad, 'malformed')]
        if known and len(known) == len(own):
            variants.append((cards_str(known), 'own_all'))
            if len(known) > 1:
                variants.append((cards_str(known[:1]), 'partial'))
            if one:
                variants.append((cards_str(known) + cards_str(one), 'too_many'))
                variants.append((cards_str(one + known[1:]), 'foreign'))
        for v, lab in variants:
            if i is None:
                a = () if v is None else (v,)
            else:
                a = (v, i)
            out.append(('show_or_muck_hole_cards', a, 'show:' + lab + ('' if i is None else '+player')))
    return out


PHASE_WEIGHT = {'ante': 1, 'blind': 1, 'collect': 2, 'burn': 1, 'hole': 1, 'board': 1, 'draw': 3, 'bringin': 4, 'bet': 3,
                'showdown': 6, 'kill': 5, 'push': 2, 'pull': 2}


def phase_of(world):
    return world.enabled_phase() or ('over' if not world.state.status else 'none')


PROPERTIES = ('actor_index', 'ante_poster_indices', 'blind_or_straddle_poster_indices', 'board_count', 'board_dealing_count',
              'board_indices', 'cards_in_play', 'cards_not_in_play', 'checking_or_calling_amount', 'chips_pulling_indices',
              'draw_statuses', 'effective_bring_in_amount', 'hand_killing_indices', 'hand_type_count', 'hand_type_indices',
              'hole_dealee_index', 'max_completion_betting_or_raising_to_amount', 'min_completion_betting_or_raising_to_amount',
              'player_indices', 'pot_amounts', 'pot_completion_betting_or_raising_to_amount', 'pots', 'reserved_cards',
              'runout_count_selector_indices', 'showdown_index', 'stander_pat_or_discarder_index', 'street', 'street_count',
              'street_indices', 'total_pot_amount', 'turn_index')


def materialise(x):
    return tuple(x) if hasattr(x, '__next__') else x


def read_everything(st, ctx):
    """Every public read-only property and getter of the state, for every player / board / hand type. Returns the list of
    (name, args, exception) of those that raised."""
    raised = []

    def call(name, f, *args):
        try:
            materialise(f(*args))
        except Exception as e:      # noqa: BLE001
            raised.append((name, args, e))
    for name in PROPERTIES:
        call(name, lambda n=name: getattr(st, n))
    n = st.player_count
    for i in range(n):
        for name in ('get_censored_hole_cards', 'get_down_cards', 'get_up_cards', 'get_effective_ante',
                     'get_effective_blind_or_straddle', 'get_effective_stack', 'can_win_now'):
            call(name, getattr(st, name), i)
        for b in range(st.board_count):
            for h in range(st.hand_type_count):
                call('get_hand', st.get_hand, i, b, h)
                call('get_up_hand', st.get_up_hand, i, b, h)
    for b in range(st.board_count):
        call('get_board_cards', st.get_board_cards, b)
        for h in range(st.hand_type_count):
            call('get_up_hands', st.get_up_hands, b, h)
    call('get_dealable_cards', st.get_dealable_cards)
    call('get_dealable_cards', st.get_dealable_cards, 3)
    ctx.count('derived_queries_read', 1)
    return raised


def quick_print(st):
    """Cheap fingerprint (the full snapshot follows after the verifier)."""
    return (len(st.operations), st.status, st.street_index, tuple(st.stacks), tuple(st.bets), len(st.deck_cards),
            len(st.burn_cards), len(st.mucked_cards), tuple(map(len, st.hole_cards)), tuple(map(len, st.board_cards)),
            tuple(st.statuses), tuple(st.actor_indices), st.opener_index, st.bring_in_status,
            st.completion_betting_or_raising_count, tuple(st.payoffs))


class Adversary:
    def __init__(self, world, ctx):
        self.world = world
        self.ctx = ctx
        self.classes = set()
        self.flip = False
        self.serial = 0

    def attack(self):
        world = self.world
        st = world.state
        phase = phase_of(world)
        reqs = requests(world)
        # rng_flip: the query, the verifier and the operation of one request each see a DIFFERENT shuffle (the keyed
        # shuffle seam is re-keyed in between), so an answer that depends on the order in which a replenished deck
        # happens to come out shows as a disagreement instead of being masked by the deterministic seam
        self.flip = world.ch.chance('adv.rng_flip', 1, 2)
        # one full picture of the state per attack: every request is verified to leave it unchanged, so it stays valid
        self.before = snapshot(st)
        self.before_d = derived(st)
        self.before_q = quick_print(st)
        self.pristine = copy.deepcopy(st)
        if world.ch.chance('adv.read_all', 1, 3):
            # every public read-only property and getter, for every player, board and hand type: reading changes nothing
            # (that one of them raises in this state is counted, not judged: the property speaks of the yes/no queries)
            for name, args, e in read_everything(st, self.ctx):
                self.ctx.count('derived_query_raised:%s:%s' % (name, type(e).__name__))
            after = snapshot(st)
            if after != self.before or derived(st) != self.before_d:
                raise Violation('C08.mutation', f'reading the public properties and getters [phase={phase}] changed the state: '
                                f'{[x[0] for x in diff(self.before, after)]}', op='read', step='read')
        try:
            for mode in ('ignore', 'error'):
                with warnings.catch_warnings():
                    warnings.simplefilter('error' if mode == 'error' else 'ignore')
                    for name, args, label in reqs:
                        self.one(st, name, args, label, mode, phase)
        finally:
            boot.set_run_key(world.run_key)
        self.ctx.fault('warn_flip')
        if self.flip:
            self.ctx.fault('rng_flip')

    def rekey(self, step):
        if self.flip:
            boot.set_run_key('%s|%d%s' % (self.world.run_key, self.serial, step))

    def one(self, st, name, args, label, mode, phase):
        can, verify = OPS[name]
        ctx = self.ctx
        ctx.count('requests')
        if label.startswith('cards_deck_plus_reserve'):
            ctx.count('requests_naming_reserve_cards_on_a_short_deck')
        before = self.before
        before_d = self.before_d

        def unchanged(what):
            after = snapshot(st)
            if after != before:
                raise Violation('C08.mutation', f'{what} {name}{args} [{label}, warnings={mode}, phase={phase}] changed the '
                                f'state: {[x[0] for x in diff(before, after)]}', op=name, step=what.split()[0])
            if derived(st) != before_d:
                raise Violation('C08.mutation', f'{what} {name}{args} [{label}, warnings={mode}] changed a derived query',
                                op=name, step=what.split()[0])
        def unchanged_after(steps):
            if snapshot(st) != before or derived(st) != before_d:
                unchanged(self.culprit(name, args, steps))
        self.serial += 1
        self.rekey('q')
        try:
            q = getattr(st, can)(*args)
        except Exception as e:      # noqa: BLE001
            raise Violation('C08.query_raises', f'{can}{args} [{label}, warnings={mode}, phase={phase}] raised '
                            f'{type(e).__name__}: {e}', op=name, exc=type(e).__name__)
        if q is not True and q is not False:
            raise Violation('C08.query_type', f'{can}{args} returned {q!r}, not a bool', op=name)
        if quick_print(st) != self.before_q:
            unchanged('query')          # the cheap fingerprint names the step at once; the full comparison follows below
        self.rekey('v')
        try:
            getattr(st, verify)(*args)
            v = True
        except (ValueError, UserWarning) as e:
            v = False
            if isinstance(e, UserWarning) and mode != 'error':
                raise Violation('C08.verify_exc', f'{verify}{args} raised UserWarning while warnings are not errors', op=name)
        except Exception as e:      # noqa: BLE001
            raise Violation('C08.verify_exc', f'{verify}{args} [{label}, warnings={mode}, phase={phase}] raised '
                            f'{type(e).__name__}: {e} (only ValueError/UserWarning are refusals)', op=name,
                            exc=type(e).__name__)
        if quick_print(st) != self.before_q:
            unchanged('verifier')
        if q != v:
            raise Violation('C08.disagree', f'{can}{args} says {q} but {verify} {"passes" if v else "refuses"} '
                            f'[{label}, warnings={mode}, phase={phase}]', op=name)
        outcome = 'accepted' if q else 'refused'
        self.rekey('o')
        self.classes.add((name, label, phase, mode, outcome))
        if not q:
            ctx.fault('bad_request')
            try:
                getattr(st, name)(*args)
            except (ValueError, UserWarning) as e:
                if isinstance(e, UserWarning) and mode != 'error':
                    raise Violation('C08.refusal_exc', f'{name}{args} refused with UserWarning while warnings are not errors', op=name)
            except Exception as e:      # noqa: BLE001
                raise Violation('C08.refusal_exc', f'{name}{args} [{label}, warnings={mode}, phase={phase}] was refused by the '
                                f'query but the operation raised {type(e).__name__}: {e} in {where_of(e)}',
                                op=name, exc=type(e).__name__)
            else:
                raise Violation('C08.disagree', f'{can}{args} says no but {name}{args} succeeded '
                                f'[{label}, warnings={mode}, phase={phase}]', op=name)
            # ONE full comparison per request (state and derived queries), after the last of the three calls; when it
            # fails the culprit is found by repeating the calls one by one on copies of the state as it was before
            unchanged_after(('query', 'verifier', 'refused operation'))
        else:
            unchanged_after(('query', 'verifier'))
            ctx.count('accepted_on_fork')
            fork = copy.deepcopy(st)
            try:
                op = getattr(fork, name)(*args)
            except Exception as e:      # noqa: BLE001
                raise Violation('C08.accept_fails', f'{can}{args} says yes but {name}{args} raised {type(e).__name__}: {e} '
                                f'in {where_of(e)} [{label}, warnings={mode}, phase={phase}]', op=name, exc=type(e).__name__)
            if name == 'no_operate':
                # a note in the log and nothing else: one NoOperation record more, every other field as before
                if len(fork.operations) != len(st.operations) + 1 or type(fork.operations[-1]).__name__ != 'NoOperation':
                    raise Violation('C08.no_operation', f'no_operate() logged {[type(o).__name__ for o in fork.operations[len(st.operations):]]}',
                                    op=name)
                d = [x[0] for x in diff(before, snapshot(fork)) if x[0] != 'operations']
                if d:
                    raise Violation('C08.no_operation', f'no_operate() changed {d}', op=name)
                ctx.count('no_operations_checked')
            if name in INDEXED and len(args) > INDEXED[name] and args[INDEXED[name]] is not None:
                if getattr(op, 'player_index', None) != args[INDEXED[name]]:
                    raise Violation('C08.wrong_player', f'{name}{args} was applied to player {op.player_index}', op=name)
                self.applied_to(fork, st, name, args, op)
            if quick_print(st) != self.before_q:
                unchanged('operation on a copy')

    def culprit(self, name, args, steps):
        can, verify = OPS[name]
        for what, fn in (('query', can), ('verifier', verify), ('refused operation', name)):
            if what not in steps:
                continue
            c = copy.deepcopy(self.pristine)
            try:
                getattr(c, fn)(*args)
            except Exception:       # noqa: BLE001
                pass
            if snapshot(c) != self.before or derived(c) != self.before_d:
                return what
        return '/'.join(s.split()[-1] for s in steps)

    def applied_to(self, fork, st, name, args, op):
        """The state change must concern the player the explicit index names."""
        i = args[INDEXED[name]]
        same_phase = fork.street_index == st.street_index and len(fork.operations) == len(st.operations) + 1
        if name == 'show_or_muck_hole_cards' and st.street is not None and same_phase:
            if i in fork.showdown_indices:
                raise Violation('C08.wrong_player', f'{name}{args}: player {i} is still waiting to show afterwards', op=name)
            gone = [j for j in st.showdown_indices if j not in fork.showdown_indices and j != i]
            if gone:
                raise Violation('C08.wrong_player', f'{name}{args}: players {gone} lost their turn to show', op=name)
        if name == 'deal_hole':
            if len(fork.operations) == len(st.operations) + 1:
                if len(fork.hole_cards[i]) != len(st.hole_cards[i]) + len(op.cards):
                    raise Violation('C08.wrong_player', f'{name}{args}: player {i} did not receive the cards', op=name)
            else:
                # an automation cascade followed the deal (it may have run the hand to its end and mucked the cards):
                # the dealt cards must not sit in anybody else's hand
                for j in range(fork.player_count):
                    if j != i and any(c in fork.hole_cards[j] and c not in st.hole_cards[j] for c in op.cards
                                      if not c.unknown_status):
                        raise Violation('C08.wrong_player', f'{name}{args}: the cards ended up with player {j}', op=name)
        if name == 'select_runout_count' and same_phase:
            if fork.runout_count_selector_statuses[i]:
                raise Violation('C08.wrong_player', f'{name}{args}: player {i} may still select afterwards', op=name)


def run(ch, ctx):
    bias = dict(BIAS)
    exhaust = ch.chance('c08.exhaust', 1, 8)
    if exhaust:
        # tables whose demand exceeds the deck (as in C06): the reserve becomes dealable, the place where the answer of a
        # query could depend on how the replenished deck happens to be shuffled
        from .c06 import EXHAUST
        # (royal hold'em is left out: 7-8 handed its 20-card deck physically cannot serve the hand - capacity rule of C06)
        bias.update(variants=tuple(v for v in EXHAUST if v != 'NR'), min_players=6, max_players=8, sbcs=(1,))
    cfg = gen_config(ch, bias)
    world = None
    try:
        world = World(ch, ctx, cfg, [], run_key=run_key_of(ch), profile='passive' if exhaust else None)
        adv = Adversary(world, ctx)
        st = world.state
        last_phase = None
        attacks = 0
        while st.status:
            if world.ticks > world.tick_cap:
                raise Stuck('tick cap exceeded')
            phase = world.enabled_phase()
            num = PHASE_WEIGHT.get(phase, 1) * (2 if phase != last_phase else 1)   # biased to ticks right after a phase change
            need = (st.board_dealing_count or 0) if phase == 'board' else (
                len(st.hole_dealing_statuses[st.hole_dealee_index]) if phase == 'hole' and st.hole_dealee_index is not None else 0)
            if need > len(st.deck_cards):
                num = 24                    # the deck cannot cover the deal that is due: always look (reserve cards become dealable)
                ctx.count('attacks_on_a_short_deck')
            if cfg.get('forced_allin'):
                num = min(16, num * 3)      # short hands with unusual phase sequences: look at most of their states
            if attacks < (8 if num < 24 else 10) and ch.chance('adv.attack', num, 24):
                adv.attack()
                attacks += 1
            last_phase = phase
            if world.step() is None:
                raise Stuck('no operation available while the hand is not over')
        if ch.chance('adv.after_end', 1, 2):
            adv.attack()           # requests after the hand is over (incl. the documented non-standard show)
            attacks += 1
    except (Violation, EngineCrash, Stuck):
        if world is not None:
            note_trace(world, ctx)
        else:
            ctx.notes['config'] = cfg
        raise
    ctx.count('attacked_states', attacks)
    ctx.count('forced_allin_tables', bool(cfg.get('forced_allin')))
    std_finish(world, ctx, attacks > 0)
    ctx.shape.append(sorted(adv.classes))
    ctx.count('request_classes_in_run', len(adv.classes))
