"""Helpers shared by the per-property check modules."""
from __future__ import annotations
import hashlib

from sim import boot
from sim.config import config_class, gen_config
from sim import play
from sim.play import World, Violation, EngineCrash, Stuck, Monitor  # noqa: F401

pk = boot.boot()
import pokerkit.state as S  # noqa: E402

OPCODE = {
    'AntePosting': 'a', 'BetCollection': 'c', 'BlindOrStraddlePosting': 'b', 'CardBurning': 'u',
    'HoleDealing': 'h', 'BoardDealing': 'd', 'StandingPatOrDiscarding': 'x', 'Folding': 'f',
    'CheckingOrCalling': 'k', 'BringInPosting': 'i', 'CompletionBettingOrRaisingTo': 'r',
    'RunoutCountSelection': 'n', 'HoleCardsShowingOrMucking': 's', 'HandKilling': 'l',
    'ChipsPushing': 'p', 'ChipsPulling': 'q', 'NoOperation': 'o',
}

COMPONENTS = {
    'real': ['pokerkit.state (State, all operations, automation cascade)', 'pokerkit.games', 'pokerkit.hands',
             'pokerkit.lookups', 'pokerkit.utilities (cards, decks, divmod, rake)'],
    'stubbed': ['random.shuffle -> keyed permutation owned by the simulator (deck order, replenish order)',
                'warnings filter (per run)', 'who performs a step: automations tuple vs simulator agents'],
    'observation': 'run-time wrap of State._update (every logged operation, also mid-cascade and inside the constructor); no /repo edit',
}


def opseq(state):
    return ''.join(OPCODE.get(type(op).__name__, '?') for op in state.operations)


def op_brief(op):
    d = {k: v for k, v in vars(op).items() if k != 'commentary' and v is not None}
    return type(op).__name__ + '(' + ', '.join(f'{k}={v!r}' for k, v in d.items()) + ')'


def run_key_of(ch):
    return 'rk%d' % ch.pick('run_key', 1 << 30)


def std_finish(world, ctx, nontrivial):
    st = world.state
    ctx.count('ticks', world.ticks)
    ctx.count('operations', len(st.operations))
    ctx.count('hands')
    ctx.nontrivial = bool(nontrivial)
    ctx.shape = [config_class(world.cfg), opseq(st)]
    ctx.sample = sample_of(world)


def sample_of(world, tail=60):
    st = world.state
    return {'config': world.cfg, 'profile': world.profile_name, 'dealer': world.dealer,
            'decisions': [[d[0]] + [str(a) for a in d[1]] for d in world.decisions][:tail],
            'operations': [op_brief(op) for op in st.operations][:tail],
            'final_stacks': [str(x) for x in st.stacks], 'payoffs': [str(x) for x in st.payoffs]}


def note_trace(world, ctx, tail=80):
    """Human-readable trace stored in replay files."""
    st = world.state
    ctx.notes['config'] = world.cfg
    if st is None:
        return
    ctx.notes.update({
        'config': world.cfg, 'profile': world.profile_name, 'dealer': world.dealer,
        'decisions': [[d[0]] + [str(a) for a in d[1]] for d in world.decisions][-tail:],
        'operations': [op_brief(op) for op in st.operations][-tail:],
        'in_call': world.in_call,
        'state': {'status': st.status, 'street_index': st.street_index, 'statuses': list(st.statuses),
                  'stacks': [str(x) for x in st.stacks], 'bets': [str(x) for x in st.bets],
                  'payoffs': [str(x) for x in st.payoffs], 'all_in_status': st.all_in_status,
                  'board_cards': repr(st.board_cards), 'hole_cards': repr(st.hole_cards)},
    })


def live_model(ops, n):
    """Who is still in the hand according to the log alone."""
    live = [True] * n
    for op in ops:
        t = type(op).__name__
        if t in ('Folding', 'HandKilling'):
            live[op.player_index] = False
        elif t == 'HoleCardsShowingOrMucking' and not op.hole_cards:
            live[op.player_index] = False
    return live


def digest(*parts):
    return hashlib.blake2b(repr(parts).encode(), digest_size=8).hexdigest()
