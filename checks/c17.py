"""C17 - ACPC and Pluribus protocol output describes the hand that was played.  DESIGN.md section 5, C17."""
from __future__ import annotations
import warnings

from .common import (COMPONENTS, EngineCrash, Monitor, Stuck, Violation, World, gen_config, note_trace,
                     run_key_of, std_finish, opseq)
from ref import acpc as racpc
from sim.config import conv

import pokerkit
from pokerkit import HandHistory, Automation

ID = 'C17'
LEVEL = 'exploration'
crash_is_violation = False
QUICK_RUNS = 7000
THOROUGH_RUNS = 200000
QUICK_BUDGET = 100
THOROUGH_BUDGET = 1500
RULE = ('one run = one simulated fixed-limit or no-limit hold\'em hand (2-6 players, equal stacks, no antes, known cards, any '
        'mode and automation subset, dealing one card or several per call, histories written with compression on or off, in half '
        'of the runs a talking table: commentary on operations and no-operations between them - fault note_interleaved - which '
        'the history carries as note lines at arbitrary places, also between two partial deals of one street), '
        'then the per-seat message history of the dealer->client protocol for EVERY viewer seat. Oracle: an independent '
        'renderer (ref/acpc.py) produces the expected dialogue from the operation log - one server message before each '
        'betting action and at the end, one client message after each action of the viewer, betting string f/c/r or '
        'r<total committed>, "/" per street, viewer\'s cards plus shown hands, boards - and must equal the engine\'s output '
        'line by line; per-seat prefix consistency (each server message extends the previous one, so a client that missed a '
        'message resynchronises from the next); the dialogue of a scheduler-chosen prefix of the hand (crash point) is a '
        'prefix of the full dialogue; the Pluribus line equals the renderer\'s, its result field equals the payoffs, and '
        'parsing it back with the same game and stack replays to the same betting actions and stacks and prints the '
        'identical line. non-trivial = hand with >= 1 raise or >= 2 streets; distinct = distinct betting strings')
ASSUMPTIONS = [
    'equal starting stacks, no antes, plain small/big blinds (the protocol has no notion of antes or unequal stacks)',
    'the hand number is supplied by the caller; player names default to p1..pn',
]
BIAS = dict(variants=('NT', 'FT'), custom_num=0, chips=('int',), rakes=('none',), sbcs=(1,), divmods=('default',),
            max_players=6, ante_kinds=('none',), plain_blinds=True, equal_stacks=True, bbs=(2, 10),
            stack_pool=(20, 40, 100, 200, 13))


def run(ch, ctx):
    cfg = gen_config(ch, BIAS)
    cfg['bring_in'] = 0
    if cfg['variant'] == 'NT' and ch.chance('c17.min_bet', 1, 3):
        cfg['min_bet'] = ch.choice('c17.min_bet.value', (cfg['bb'] // 2, cfg['bb'] * 2))     # a minimum bet other than the big blind
        ctx.count('min_bet_differs_from_big_blind')
    world = None
    compression = bool(ch.pick('c17.compression', 2))
    hand_number = ch.pick('c17.hand', 1000)
    cut_anywhere = ch.chance('c17.cut_anywhere', 1, 2)      # the hand is also cut where the dealer, a showdown or a
    cut = ch.pick('c17.cut', 60 if cut_anywhere else 30)    # chip-mechanical step is due, not only where a player is to act
    partial = None
    try:
        talk = ch.chance('c17.talk', 1, 2)     # notes in the log: commentary on operations and no-operations between them
        world = World(ch, ctx, cfg, [], run_key=run_key_of(ch), runout_prefs=(None, 1), muck_num=0, partial_show=False,
                      commentary_num=2 if talk else 0, chatter_num=2 if talk else 0,
                      dealer=ch.choice('c17.dealer', ('engine', 'explicit', 'counted')),
                      profile=ch.choice('c17.profile', ('balanced', 'aggressive', 'passive', 'shover')))
        st = world.state
        k = 0
        while st.status:
            if world.ticks > world.tick_cap:
                raise Stuck('tick cap exceeded')
            if st.actor_index is not None or (cut_anywhere and st.street_index is not None
                                              and not any(st.hole_dealing_statuses)):     # (everybody holds his hole cards)
                if k == cut and partial is None:
                    partial = (HandHistory.from_game_state(world.game, st, compression, hand=hand_number),
                               list(st.operations))
                    ctx.fault('crash_prefix')
                    ctx.count('prefix_cut_while_dealer_or_showdown_due', st.actor_index is None)
                k += 1
            if world.step() is None:
                raise Stuck('no operation available while the hand is not over')
        check(world, cfg, compression, hand_number, partial, ctx, ch)
    except (Violation, EngineCrash, Stuck):
        if world is not None:
            note_trace(world, ctx)
        else:
            ctx.notes['config'] = cfg
        raise
    seq = opseq(st)
    ctx.count('compression_on', compression)
    ctx.count('no_limit', cfg['variant'] == 'NT')
    ctx.count('all_in_runout', st.all_in_status)
    std_finish(world, ctx, 'r' in seq or seq.count('d') >= 2)
    ctx.shape = [cfg['variant'], cfg['n'], ctx.notes.pop('betting', '')]


def lines_of(hh, pos, what):
    try:
        return list(hh.to_acpc_protocol(pos))
    except Exception as e:      # noqa: BLE001
        raise Violation('C17.acpc_exc', f'{what}: to_acpc_protocol({pos}) raised {type(e).__name__}: {e}; actions {hh.actions}',
                        rule='acpc_exc', exc=type(e).__name__)


def last_is_earlier_view(a, b):
    """Message a is what message b looked like earlier: same direction, seat, hand and betting string; every seat's
    hole cards equal or not yet visible; the board a prefix of b's board."""
    if a[0] != b[0] or a[0] != 'S->':
        return False
    fa, fb = a[1].strip().split(':'), b[1].strip().split(':')
    if len(fa) != 5 or len(fb) != 5 or fa[:4] != fb[:4]:
        return False
    ca, cb = fa[4].split('/'), fb[4].split('/')
    ha, hb = ca[0].split('|'), cb[0].split('|')
    if len(ha) != len(hb) or any(x and x != y for x, y in zip(ha, hb)):
        return False
    ba, bb = ca[1:], cb[1:]
    return len(ba) <= len(bb) and all(x == y or (i == len(ba) - 1 and y.startswith(x)) for i, (x, y) in enumerate(zip(ba, bb)))


def check(world, cfg, compression, hand_number, partial, ctx, ch=None):
    st = world.state
    n = cfg['n']
    nl = cfg['variant'] == 'NT'
    hh = HandHistory.from_game_state(world.game, st, compression, hand=hand_number)
    ops = list(st.operations)
    full = {}
    for pos in range(n):
        got = lines_of(hh, pos, 'full hand')
        want = racpc.dialogue(ops, n, nl, pos, hand_number, True)
        full[pos] = got
        ctx.count('messages_compared', len(got))
        if got != want:
            i = next((j for j, (a, b) in enumerate(zip(got, want)) if a != b), min(len(got), len(want)))
            raise Violation('C17.dialogue', f'seat {pos}: message #{i} is {got[i] if i < len(got) else None!r}, the hand played '
                            f'implies {want[i] if i < len(want) else None!r} ({len(got)} vs {len(want)} messages; log {opseq(st)})',
                            rule='dialogue')
        prev = None
        for direction, text in got:
            if direction != 'S->':
                continue
            f = text.strip().split(':')
            if f[0] != 'MATCHSTATE' or int(f[1]) != pos or int(f[2]) != hand_number:
                raise Violation('C17.format', f'seat {pos}: malformed server message {text!r}', rule='format')
            if prev is not None and not f[3].startswith(prev):
                raise Violation('C17.prefix', f'seat {pos}: betting string {f[3]!r} does not extend the previous {prev!r}',
                                rule='prefix')
            prev = f[3]
    if partial is not None:
        phh, pops = partial
        for pos in range(n):
            got = lines_of(phh, pos, 'prefix of the hand')
            if got and got != full[pos][:len(got)] and got[:-1] == full[pos][:len(got) - 1] and len(full[pos]) >= len(got) \
                    and last_is_earlier_view(got[-1], full[pos][len(got) - 1]):
                ctx.count('prefix_dialogues_compared')
                continue        # cut during a showdown or a run-out: the last message shows fewer cards than the final one will
            if got != full[pos][:len(got)]:
                i = next((j for j, (a, b) in enumerate(zip(got, full[pos])) if a != b), min(len(got), len(full[pos])))
                raise Violation('C17.crash_prefix', f'seat {pos}: the dialogue of the first {len(pops)} operations is not a '
                                f'prefix of the full hand\'s dialogue (message #{i}: {got[i] if i < len(got) else None!r} vs '
                                f'{full[pos][i] if i < len(full[pos]) else None!r})', rule='crash_prefix')
            ctx.count('prefix_dialogues_compared')
    # fault omitted_steps: the same hand written without the folds and free checks a reader can infer (C16's fault) must
    # produce the same dialogue for every seat
    if ch is not None and ch.chance('c17.omit', 1, 3):
        from .c16 import omitted_steps
        h_omit = omitted_steps(ch, st, HandHistory.from_game_state(world.game, st, False, hand=hand_number), ctx, only_build=True)
        if h_omit is not None:
            for pos in range(n):
                got = lines_of(h_omit, pos, 'hand with inferable lines left out')
                if got != full[pos]:
                    i = next((j for j, (a, b) in enumerate(zip(got, full[pos])) if a != b), min(len(got), len(full[pos])))
                    raise Violation('C17.omitted', f'seat {pos}: with the inferable folds/checks left out of the action list '
                                    f'message #{i} is {got[i] if i < len(got) else None!r}, for the fully written hand '
                                    f'{full[pos][i] if i < len(full[pos]) else None!r}', rule='omitted')
            ctx.count('omitted_step_dialogues_compared')
    if not nl:
        return
    line = hh.to_pluribus_protocol()
    want = racpc.pluribus(ops, n, hand_number, list(st.payoffs))
    ctx.notes['betting'] = line.split(':')[2]
    if line != want:
        raise Violation('C17.pluribus', f'Pluribus line {line!r}, the hand played implies {want!r}', rule='pluribus')
    stack = conv(cfg, cfg['stacks'][0])
    game0 = pokerkit.NoLimitTexasHoldem((), cfg['ats'], 0, tuple(conv(cfg, b) for b in cfg['blinds']),
                                        conv(cfg, cfg.get('min_bet', cfg['bb'])))
    with warnings.catch_warnings():
        warnings.simplefilter('ignore')
        try:
            hs = list(HandHistory.from_acpc_protocol(game0, stack, line, error_status=True))
        except Exception as e:      # noqa: BLE001
            raise Violation('C17.parse', f'the line {line!r} cannot be parsed back: {type(e).__name__}: {e}', rule='parse',
                            exc=type(e).__name__)
    if len(hs) != 1:
        raise Violation('C17.parse', f'the line {line!r} parses to {len(hs)} histories', rule='parse')
    end = None
    for end in hs[0]:
        pass
    if list(end.stacks) != list(st.stacks):
        raise Violation('C17.parse_stacks', f'the line {line!r} parsed back replays to stacks {end.stacks}, the hand ended with '
                        f'{st.stacks}', rule='parse_stacks')

    def bets(opslist):
        return [(type(o).__name__, o.player_index, getattr(o, 'amount', None)) for o in opslist
                if type(o).__name__ in racpc.BET]
    if bets(end.operations) != bets(ops):
        raise Violation('C17.parse_actions', f'the line {line!r} parsed back replays to betting actions '
                        f'{bets(end.operations)}, the hand had {bets(ops)}', rule='parse_actions')
    again = hs[0].to_pluribus_protocol()
    if again != line:
        raise Violation('C17.parse_line', f'the parsed-back history prints {again!r}, not {line!r}', rule='parse_line')
    ctx.count('pluribus_round_trips')
