"""C18 - equities are shares of one pot, independent of sampling and schedule, equal to the engine's split.
(Range notation and ICM clauses of C18 are pure functions and are NOT decided here - DESIGN.md section 6.)"""
from __future__ import annotations
from fractions import Fraction
from itertools import combinations
import math

from .common import (COMPONENTS, EngineCrash, Monitor, Stuck, Violation, World, gen_config, note_trace,
                     run_key_of, std_finish, opseq)
from ref.evalhand import best_key
from ref import settle as rs
from sim import boot
from sim.executor import SimExecutor
from sim.config import AUTOS

import pokerkit
from pokerkit import calculate_equities, calculate_hand_strength

ID = 'C18'
LEVEL = 'exploration'
crash_is_violation = False
QUICK_RUNS = 5000
THOROUGH_RUNS = 150000
QUICK_BUDGET = 100
THOROUGH_BUDGET = 1500
RULE = ('one run = one simulated hand (all variants incl. hi-lo, single board) played to a showdown, then the equity '
        'calculator is called on that showdown\'s cards. Seams: random.choices/random.sample are owned by the simulator '
        '(seeded per call), the Executor is a SimExecutor that runs the sampling tasks in a scheduler-chosen order over 1-4 '
        'simulated workers. With all cards given: the vector is identical for every RNG key, every executor schedule and '
        'executor=None, is non-negative, sums to 1 and equals the engine\'s own split of the pot (single-pot showdowns, '
        'exact division) incl. split-pot games with and without a qualifying low. With cards removed (river, a player\'s '
        'hole cards): for every seed and schedule the result is non-negative and sums to 1, every sampled deal consists of '
        'distinct cards disjoint from the known ones and the unknown cards are re-drawn per sample (observed through a '
        'recording hand type passed via the public hand_types argument), and on complete boards the sampled hand strength '
        'is within 6 standard errors of the exact enumeration with ref/evalhand.py. Two further probes on full deals: a hole '
        'card and a board card change places (same cards, other hands) and the result must equal the settlement model with '
        'ref/evalhand.py; and every player gets a range of several combinations that collide with the other players\' '
        'cards or with the board, where the result must still be non-negative and sum to 1 for every seed and schedule and every deal '
        'that is evaluated (recorded through subclassed hand types) must consist of distinct cards. non-trivial = single-pot showdown with '
        '>= 2 players; distinct = distinct (variant, players, winners pattern) tuples')
ASSUMPTIONS = [
    'only the equity clauses of C18 are decided; range-notation identities and ICM are pure functions of their input',
    'equities are floats: equality is demanded within 1e-9',
    'the statistical clause uses 6 standard errors + 0.01 with seeded draws (one-sided false-alarm odds below 1e-8 per call)',
]
BIAS = dict(custom_num=1, rakes=('none',), sbcs=(1,), chips=('fraction',), divmods=('exact',), equal_stacks=True,
            stack_pool=(20, 40, 100), max_players=6, ante_kinds=('none', 'uniform'), plain_blinds=True, ats=True)
TOL = 1e-9
LOG = []
SHOW_BIT = 1 << AUTOS.index(pokerkit.Automation.HOLE_CARDS_SHOWING_OR_MUCKING)
_REC = {}


def recording(hand_type):
    """A subclass of a hand type that records every (hole, board) it is asked to evaluate."""
    if hand_type not in _REC:
        class Rec(hand_type):
            @classmethod
            def from_game_or_none(cls, hole_cards, board_cards=()):
                hole_cards = tuple(hole_cards)
                board_cards = tuple(board_cards)
                LOG.append((hole_cards, board_cards))
                return super().from_game_or_none(hole_cards, board_cards)
        Rec.__name__ = hand_type.__name__
        Rec.__qualname__ = hand_type.__qualname__
        _REC[hand_type] = Rec
    return _REC[hand_type]


def check_vector(eq, n, what):
    if len(eq) != n:
        raise Violation('C18.shape', f'{what}: {len(eq)} equities for {n} players', rule='shape')
    if any((not isinstance(x, (int, float))) or math.isnan(x) or x < -TOL for x in eq):
        raise Violation('C18.negative', f'{what}: equities {eq} are not all non-negative numbers', rule='negative')
    if abs(sum(eq) - 1) > 1e-9:
        raise Violation('C18.sum', f'{what}: equities {eq} sum to {sum(eq)}, not 1', rule='sum')


def run(ch, ctx):
    cfg = gen_config(ch, BIAS)
    cfg['autos'] &= ~SHOW_BIT          # every remaining player tables his hand
    world = None
    run_key = run_key_of(ch)
    try:
        world = World(ch, ctx, cfg, [], run_key=run_key, runout_prefs=(None, 1), muck_num=0, partial_show=False,
                      profile=ch.choice('c18.profile', ('passive', 'passive', 'balanced')), dealer='engine',
                      force_show=True)
        st = world.state
        pre = None
        while st.status:
            if world.ticks > world.tick_cap:
                raise Stuck('tick cap exceeded')
            if pre is None and (st.can_push_chips() or st.can_kill_hand()):
                pre = snapshot_showdown(st)
            if world.step() is None:
                raise Stuck('no operation available while the hand is not over')
        if pre is None:
            pre = snapshot_from_log(st)
        done = False
        if pre is not None:
            done = analyse(ch, ctx, st, pre, run_key)
    except (Violation, EngineCrash, Stuck):
        if world is not None:
            note_trace(world, ctx)
        else:
            ctx.notes['config'] = cfg
        raise
    std_finish(world, ctx, done)
    ctx.shape = [cfg['variant'], ctx.notes.pop('shape', None)]


def snapshot_showdown(st):
    return None          # the log-based snapshot below is used (works with every automation subset)


def snapshot_from_log(st):
    """The showdown as the log records it: who tabled which cards (before hands were killed) and what each was pushed."""
    ops = st.operations
    pushes = [op for op in ops if type(op).__name__ == 'ChipsPushing']
    if not pushes or len({op.pot_index for op in pushes}) != 1:
        return None                      # no award, or several pots: equities speak about one pot
    shown = {}
    for op in ops:
        if type(op).__name__ == 'HoleCardsShowingOrMucking':
            if not op.hole_cards or not all(op.hole_cards):
                return None              # a muck or an incomplete show: the engine split is over tabled cards only
            shown[op.player_index] = list(op.hole_cards)
        elif type(op).__name__ == 'Folding':
            shown.pop(op.player_index, None)
        elif type(op).__name__ == 'HoleDealing' and op.player_index in shown:
            if not all(op.cards):
                return None
            shown[op.player_index] += list(op.cards)      # all-in before the last street: later cards complete the hand
    live = sorted(shown)
    if len(live) < 2:
        return None
    n = st.player_count
    award = [sum(op.amounts[i] for op in pushes) for i in range(n)]
    pot = sum(award)
    if not pot or any(award[i] for i in range(n) if i not in shown):
        return None
    holes = [shown[i] for i in live]
    if len({len(h) for h in holes}) != 1:
        return None
    board = list(st.get_board_cards(0)) if st.board_cards else []
    return dict(live=live, holes=holes, board=board, share=[Fraction(award[i]) / pot for i in live])


def analyse(ch, ctx, st, pre, run_key):
    live, holes, board, share = pre['live'], pre['holes'], pre['board'], pre['share']
    n = len(live)
    hand_types = tuple(st.hand_types)
    deck = st.deck
    hc, bc = len(holes[0]), len(board)
    ranges = [[h] for h in holes]
    results = []
    plans = [('none', 1), ('none', 5), ('sim', 4), ('sim', 9)]
    for j, (kind, k) in enumerate(plans):
        boot.set_run_key(f'{run_key}-eq{j}')
        ex = SimExecutor(ch, ctx) if kind == 'sim' else None
        # the arguments are documented as iterables: one-shot generators are as good as tuples
        one_shot = ch.chance('c18.one_shot_args', 1, 3)
        try:
            eq = calculate_equities((r for r in ranges) if one_shot else ranges, iter(board) if one_shot else board, hc, bc, deck,
                                    (h for h in hand_types) if one_shot else hand_types, sample_count=k, executor=ex)
        except Exception as e:      # noqa: BLE001
            raise Violation('C18.exc', f'calculate_equities on a full deal raised {type(e).__name__}: {e}; holes {holes} '
                            f'board {board}', rule='exc', exc=type(e).__name__)
        check_vector(eq, n, f'full deal, executor={kind}, samples={k}')
        results.append(eq)
        ctx.count('equity_calls')
    for eq in results[1:]:
        if any(abs(a - b) > TOL for a, b in zip(eq, results[0])):
            raise Violation('C18.sampling', f'all cards given, yet the result depends on the seed/schedule: {results}',
                            rule='sampling')
    if any(abs(float(s) - e) > TOL for s, e in zip(share, results[0])):
        raise Violation('C18.engine', f'equities {results[0]} differ from the split the engine paid {[str(s) for s in share]} '
                        f'(hand types {[h.__name__ for h in hand_types]}, holes {holes}, board {board})', rule='engine')
    winners = tuple(i for i, s in enumerate(share) if s)
    ctx.count('hi_lo_showdowns', len(hand_types) > 1)
    ctx.count('split_pots', len(winners) > 1)
    ctx.notes['shape'] = (n, winners, tuple(str(s) for s in share))
    names_all = [h.__name__ for h in hand_types]
    # ---- another caller's calculation interleaved with this one (fault interleaved_call) ---------------------------------
    # While the executor is half-way through the tasks of this calculation, a second calculation - the same players with
    # their hole cards passed round by one seat - is run to completion in the same process (as a second thread sharing the
    # pool would).  Both must come out as they do alone.
    if n >= 2 and ch.chance('c18.interleave', 1, 2):
        holes_b = holes[1:] + holes[:1]
        boot.set_run_key(f'{run_key}-ilv-b')
        alone_b = calculate_equities([[h] for h in holes_b], board, hc, bc, deck, hand_types, sample_count=3, executor=None)
        inner = {}

        def other_caller():
            inner['eq'] = calculate_equities([[h] for h in holes_b], board, hc, bc, deck, hand_types, sample_count=3,
                                             executor=SimExecutor(ch, ctx, label='exec.inner'))
        boot.set_run_key(f'{run_key}-ilv-a')
        eq_a = calculate_equities(ranges, board, hc, bc, deck, hand_types, sample_count=6,
                                  executor=SimExecutor(ch, ctx, interleave=other_caller))
        ctx.count('interleaved_calculations')
        if any(abs(a - b) > TOL for a, b in zip(eq_a, results[0])):
            raise Violation('C18.interleave', f'with another calculation interleaved the equities are {eq_a}, alone {results[0]} '
                            f'(holes {holes}, board {board})', rule='interleave')
        if 'eq' in inner and any(abs(a - b) > TOL for a, b in zip(inner['eq'], alone_b)):
            raise Violation('C18.interleave', f'the interleaved calculation itself gives {inner["eq"]}, alone {alone_b} '
                            f'(holes {holes_b}, board {board})', rule='interleave')
    # ---- the same cards split differently between hand and board (fault: evaluation order / stale state) -----------------
    # One of player 0's hole cards changes places with a board card: every player's hole+board card SET is unchanged or
    # nearly so, the hands are not.  Expected shares come from the settlement model with ref/evalhand.py, not from a hand.
    if board and ch.chance('c18.resplit', 1, 2):
        a = ch.pick('c18.resplit.hole', len(holes[0]))
        b = ch.pick('c18.resplit.board', len(board))
        holes_r = [list(h) for h in holes]
        board_r = list(board)
        holes_r[0][a], board_r[b] = board_r[b], holes_r[0][a]
        want = rs.settle([(Fraction(1), tuple(range(n)))], [True] * n, names_all, holes_r, [board_r])
        boot.set_run_key(f'{run_key}-resplit')
        ex = SimExecutor(ch, ctx) if ch.pick('c18.resplit.exec', 2) else None
        try:
            eq = calculate_equities([[h] for h in holes_r], board_r, hc, bc, deck, hand_types, sample_count=3, executor=ex)
        except Exception as e:      # noqa: BLE001
            raise Violation('C18.exc', f'calculate_equities on a full deal raised {type(e).__name__}: {e}; holes {holes_r} '
                            f'board {board_r}', rule='exc', exc=type(e).__name__)
        check_vector(eq, n, 're-split full deal')
        ctx.count('resplit_deals')
        if any(abs(float(w) - e) > TOL for w, e in zip(want, eq)):
            raise Violation('C18.resplit', f'after {holes[0][a]!r} and {board[b]!r} changed places (holes {holes_r}, board '
                            f'{board_r}, hand types {names_all}) the equities are {eq}, the rules give '
                            f'{[str(w) for w in want]}; before the exchange they were {results[0]}', rule='resplit')
    # ---- ranges of several combinations that collide with each other (fault: rejected selections) ----------------------
    if ch.chance('c18.overlap', 1, 2):
        known = [c for h in holes for c in h] + list(board)
        free = sorted((c for c in deck if c not in known), key=repr)
        ranges_o = []
        for i in range(n):
            combos = [list(holes[i])]
            for _ in range(1 + ch.pick('c18.overlap.extra', 3)):
                other = holes[(i + 1 + ch.pick('c18.overlap.from', n - 1)) % n] if n > 1 else holes[i]
                alt = list(holes[i])
                # an alternative holding that takes a card from ANOTHER player's holding (or a free card)
                kind_o = ch.pick('c18.overlap.kind', 4)
                # ... or a card that lies on the BOARD: such a holding can never be dealt and must not be evaluated
                src = free if kind_o == 0 else (list(board) if kind_o == 3 and board else other)
                if src:
                    alt[ch.pick('c18.overlap.pos', len(alt))] = src[ch.pick('c18.overlap.card', len(src))]
                if len(set(alt)) == len(alt) and alt not in combos:
                    combos.append(alt)
            ranges_o.append(combos)
        k = 4 + ch.pick('c18.overlap.samples', 12)
        for kind in ('none', 'sim'):
            boot.set_run_key(f'{run_key}-ov-{kind}')
            ex = SimExecutor(ch, ctx) if kind == 'sim' else None
            rec_o = tuple(recording(h) for h in hand_types)
            del LOG[:]
            try:
                eq = calculate_equities(ranges_o, board, hc, bc, deck, rec_o, sample_count=k, executor=ex)
            except Exception as e:      # noqa: BLE001
                raise Violation('C18.exc', f'calculate_equities with colliding ranges raised {type(e).__name__}: {e}; ranges '
                                f'{ranges_o} board {board}', rule='exc', exc=type(e).__name__)
            check_vector(eq, n, f'colliding ranges {ranges_o}, board {board}, executor={kind}, samples={k}')
            ctx.count('colliding_range_calls')
            per_o = n * len(hand_types)
            for s_ in range(len(LOG) // per_o):
                chunk = LOG[s_ * per_o:s_ * per_o + n]
                cards = [c for h, _ in chunk for c in h] + list(chunk[0][1])
                if len(set(cards)) != len(cards):
                    raise Violation('C18.duplicate', f'a deal evaluated for colliding ranges contains the same card twice: holes '
                                    f'{[h for h, _ in chunk]} board {chunk[0][1]} (ranges {ranges_o})', rule='duplicate')
    # ---- cards removed: sampling --------------------------------------------------------------------------
    plan = ch.pick('c18.missing', 3)
    holes2 = [list(h) for h in holes]
    board2 = list(board)
    if plan in (0, 2) and board2:
        board2 = board2[:len(board2) - 1 - ch.pick('c18.board_cut', min(2, len(board2)))]
    if plan in (1, 2):
        v = ch.pick('c18.villain', n)
        holes2[v] = holes2[v][:ch.pick('c18.hole_keep', len(holes2[v]))]
    missing = (hc * n - sum(map(len, holes2))) + (bc - len(board2))
    if missing:
        k = 6 + ch.pick('c18.samples', 10)
        rec_types = tuple(recording(h) for h in hand_types)
        for kind in ('none', 'sim'):
            boot.set_run_key(f'{run_key}-mc-{kind}')
            ex = SimExecutor(ch, ctx) if kind == 'sim' else None
            del LOG[:]
            try:
                eq = calculate_equities([[h] for h in holes2], board2, hc, bc, deck, rec_types, sample_count=k, executor=ex)
            except Exception as e:      # noqa: BLE001
                raise Violation('C18.exc', f'calculate_equities with {missing} cards missing raised {type(e).__name__}: {e}',
                                rule='exc', exc=type(e).__name__)
            check_vector(eq, n, f'{missing} cards missing, executor={kind}, samples={k}')
            ctx.count('sampled_calls')
            per = n * len(hand_types)
            if len(LOG) != per * k:
                raise Violation('C18.samples', f'{len(LOG)} evaluations recorded for {k} samples of {n} players x '
                                f'{len(hand_types)} hand types', rule='samples')
            deals = []
            known = {c for h in holes2 for c in h} | set(board2)
            for s in range(k):
                chunk = LOG[s * per:s * per + n]
                cards = [c for h, _ in chunk for c in h] + list(chunk[0][1])
                if len(set(cards)) != len(cards):
                    raise Violation('C18.duplicate', f'a sampled deal contains the same card twice: holes '
                                    f'{[h for h, _ in chunk]} board {chunk[0][1]}', rule='duplicate')
                for (h, b), want in zip(chunk, holes2):
                    if list(h[:len(want)]) != list(want) or list(b[:len(board2)]) != list(board2):
                        raise Violation('C18.known', 'a sampled deal does not keep the known cards', rule='known')
                deals.append(tuple(c for c in cards if c not in known))
            remaining = len(deck) - len(known)
            if k >= 8 and remaining >= 10 and len(set(deals)) == 1:
                raise Violation('C18.redraw', f'all {k} samples drew the same unknown cards {deals[0]}: the unknown cards '
                                f'are not re-drawn per sample', rule='redraw')
            if missing >= 2 and k >= 8 and remaining >= 10:
                # each unknown position must vary on its own (cards of one seat frozen while another seat varies)
                for pos in range(len(deals[0])):
                    if len({d[pos] for d in deals}) == 1:
                        raise Violation('C18.redraw', f'unknown card #{pos} is {deals[0][pos]!r} in all {k} samples',
                                        rule='redraw_position')
    # ---- statistical clause on complete boards: hand strength vs exact enumeration ---------------------------------
    names = [h.__name__ for h in hand_types]
    if len(hand_types) == 1 and bc >= 3 and hc == 2 and ch.chance('c18.strength', 1, 3):
        hero = holes[0]
        rest = [c for c in deck if c not in hero and c not in board]
        kh = best_key(names[0], hero, board)
        exact = Fraction(0)
        total = 0
        for opp in combinations(rest, 2):
            ko = best_key(names[0], list(opp), board)
            total += 1
            if kh is not None and (ko is None or kh > ko):
                exact += 1
            elif kh is not None and ko == kh:
                exact += Fraction(1, 2)
            elif kh is None and ko is None:
                exact += Fraction(1, 2)
        p = float(exact / total)
        N = 400
        boot.set_run_key(f'{run_key}-hs')
        hs = calculate_hand_strength(2, [hero], board, 2, bc, deck, hand_types, sample_count=N,
                                     executor=SimExecutor(ch, ctx) if ch.pick('c18.hs.exec', 2) else None)
        se = math.sqrt(max(p * (1 - p), 0.0025) / N)
        ctx.count('hand_strength_checks')
        if abs(hs - p) > 6 * se + 0.01:
            raise Violation('C18.strength', f'hand strength of {hero} on {board} sampled as {hs:.4f} with {N} samples, exact '
                            f'enumeration gives {p:.4f} (more than 6 standard errors away)', rule='strength')
    return True
