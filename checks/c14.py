"""C14 - multiple run-outs and multiple boards are offered and dealt as documented.  DESIGN.md section 5, C14."""
from __future__ import annotations
from fractions import Fraction

from .common import (COMPONENTS, EngineCrash, Monitor, Stuck, Violation, World, gen_config, note_trace,
                     run_key_of, std_finish, opseq, live_model)
from sim.config import BOARD_CODES

from pokerkit import Mode

ID = 'C14'
LEVEL = 'exploration'
crash_is_violation = False
QUICK_RUNS = 16000
THOROUGH_RUNS = 450000
QUICK_BUDGET = 100
THOROUGH_BUDGET = 1500
RULE = ('one run = one simulated hand of a board game (hold\'em, short-deck, royal, Omaha, Omaha hi-lo, Greek, 5-card Omaha '
        'hi-lo, user-defined board partitions), cash and tournament mode, short stacks and shoving profiles so that '
        'all-ins happen on every street, preference vectors over {None,1,2,3} within deck capacity, selection '
        'interleaved arbitrarily with showing, 1 or 2 starting boards. Monitors: a selection is logged/available only in '
        'cash mode, only when at most one remaining player has chips and community cards are still to come, and then it '
        'IS offered - once - to exactly the players remaining when the all-in showdown opened, each at most once, in any '
        'order; independently of the engine\'s own all-in detection, no later street is dealt in a cash game while the '
        'stacks say that at most one remaining player has chips and no offer was opened; agreed count = r iff all expressed preferences equal r, else 1 (None if nobody expressed one); never more '
        'than one board per starting board in tournament mode; at the end board_count == b*r, every board is complete, '
        'the r run-outs of a starting board share exactly the cards dealt before the all-in and no card occurs twice over '
        'boards and hands; each pot is divided evenly over the boards (exactly for Fraction chips, remainder to the first '
        'board for int); the dealing model of C10 (every board deal goes to the end of one board, the first that lacks '
        'cards) and the settlement model of C02 (per board and hand type) follow the hand as well. non-trivial = hand with an all-in showdown before the last board street; distinct = distinct '
        '(variant, mode, b, street of all-in, preference vector, selection/show interleaving) tuples')
ASSUMPTIONS = [
    'capacity rule: preferences are drawn only from counts the deck can physically serve',
    'a third of the runs play voluntary mucks at the showdown; whether a player who gave up is still asked for a '
    'run-out count is UNSPECIFIED, but a preference he does express counts like anybody else\'s',
]
BIAS = dict(variants=BOARD_CODES, chips=('int', 'fraction'), rakes=('none',), sbcs=(1, 1, 2),
            stack_pool=(1, 2, 3, 5, 8, 8, 13, 13, 20, 40), divmods=('default',))


class RunoutMonitor(Monitor):
    def __init__(self, cfg):
        self.cfg = cfg
        self.offer = None            # dict describing the (single) offer, once opened
        self.offer_expected = None
        self.selected = []
        self.first_show_seen = False
        self.pre_allin_rows = None
        self.show_phase = 0
        self.last_class = None
        self.inter = ''
        self.missed_reported = False
        self.gave_up = set()         # players who mucked voluntarily: whether they are still asked is UNSPECIFIED

    def on_op(self, world, st, op):
        t = type(op).__name__
        n = st.player_count
        cls = 'show' if t in ('RunoutCountSelection', 'HoleCardsShowingOrMucking') else 'other'
        if cls == 'show' and self.last_class != 'show':
            self.show_phase += 1
        self.last_class = cls
        if cls == 'show' and not self.first_show_seen:
            self.first_show_seen = True
            live = live_model(st.operations[:-1], n)
            k = st.street_index
            to_come = k is not None and any(s.board_dealing_count for s in st.streets[k + 1:])
            with_chips = sum(1 for i in range(n) if live[i] and st.stacks[i] > 0)
            self.offer_expected = None
            if st.mode == Mode.CASH_GAME and to_come and sum(live) >= 2 and with_chips <= 1:
                self.offer_expected = {i for i in range(n) if live[i]}
                self.allin_street = k
                self.pre_allin_rows = len(st.board_cards)
        if t in ('CardBurning', 'BoardDealing') and not self.first_show_seen and st.mode == Mode.CASH_GAME \
                and st.street_index is not None and st.street_index >= 1 and not self.missed_reported:
            # independent of the engine's own all-in detection: the remaining players' stacks say that nobody can bet
            # any more, community cards are still to come, and yet dealing goes on without an all-in showdown
            live = live_model(st.operations[:-1], n)
            with_chips = sum(1 for i in range(n) if live[i] and st.stacks[i] > 0)
            k = st.street_index
            to_come = any(s.board_dealing_count for s in st.streets[k:])
            if sum(live) >= 2 and with_chips <= 1 and to_come and not any(st.bets):
                self.missed_reported = True
                raise Violation('C14.offer', f'cash game: the {sum(live)} remaining players are all-in (stacks {st.stacks}) with '
                                f'community cards still to come, but street {k} is being dealt without the run-out choice '
                                f'having been offered', rule='missed_all_in')
        if t == 'RunoutCountSelection':
            self.inter += 'n'
            i = op.player_index
            if st.mode != Mode.CASH_GAME:
                raise Violation('C14.offer', f'run-out selection by player {i} in tournament mode', rule='tournament')
            if self.offer_expected is None:
                raise Violation('C14.offer', f'run-out selection by player {i} although the remaining players are not '
                                f'all-in with community cards still to come (street {st.street_index}, stacks {st.stacks}, '
                                f'statuses {st.statuses})', rule='when')
            if i not in self.offer_expected:
                raise Violation('C14.offer', f'player {i} selected a run-out count but was not in the hand when the offer '
                                f'opened ({sorted(self.offer_expected)})', rule='who')
            if i in [p for p, _ in self.selected]:
                raise Violation('C14.offer', f'player {i} selected a run-out count twice', rule='once')
            if self.show_phase > 1 and self.selected_phase not in (None, self.show_phase):
                raise Violation('C14.offer', 'the choice of run-outs was offered again at a later showdown', rule='again')
            self.selected_phase = self.show_phase
            if op.runout_count is not None and op.runout_count < 1:
                raise Violation('C14.offer', f'non-positive run-out count {op.runout_count} accepted', rule='count')
            self.selected.append((i, op.runout_count))
            prefs = [c for _, c in self.selected if c is not None]
            want = None if not prefs else (prefs[0] if all(c == prefs[0] for c in prefs) else 1)
            if st.runout_count != want:
                raise Violation('C14.consensus', f'after selections {self.selected} the agreed count is '
                                f'{st.runout_count}, the rule says {want}', rule='consensus')
        elif t == 'HoleCardsShowingOrMucking':
            self.inter += 's'
            if not op.hole_cards:
                self.gave_up.add(op.player_index)
        if t in ('BoardDealing', 'CardBurning', 'HoleDealing') and self.offer_expected is not None and self.first_show_seen:
            missing = self.offer_expected - {p for p, _ in self.selected} - self.gave_up
            if missing and not getattr(self, 'reported_missing', False):
                self.reported_missing = True
                raise Violation('C14.offer', f'dealing resumed although players {sorted(missing)} were never asked for a '
                                f'run-out count (all-in on street {self.allin_street}, cash game, community cards to come)',
                                rule='not_offered')

    selected_phase = None

    def on_quiescent(self, world):
        st = world.state
        if st.can_select_runout_count():
            if st.mode != Mode.CASH_GAME:
                raise Violation('C14.offer', 'run-out selection is available in tournament mode', rule='tournament')
        if self.offer_expected is not None and st.street_index == getattr(self, 'allin_street', None) \
                and world.enabled_phase() == 'showdown':
            done = {p for p, _ in self.selected}
            for i in sorted(self.offer_expected - done - self.gave_up):
                if not st.can_select_runout_count(None, i):
                    raise Violation('C14.offer', f'all-in showdown on street {self.allin_street} of a cash game with '
                                    f'community cards to come, but player {i} is not offered a run-out choice',
                                    rule='not_offered')
            for i in sorted(done):
                if st.can_select_runout_count(None, i):
                    raise Violation('C14.offer', f'player {i} is offered the run-out choice a second time', rule='once')

    def on_end(self, world):
        st = world.state
        b = st.starting_board_count
        prefs = [c for _, c in self.selected if c is not None]
        r = 1 if not prefs else (prefs[0] if all(c == prefs[0] for c in prefs) else 1)
        if st.mode == Mode.TOURNAMENT and st.board_count != b:
            raise Violation('C14.boards', f'{st.board_count} boards at the end of a tournament hand with {b} starting board(s)',
                            rule='tournament')
        live = sum(st.statuses)
        reached_end = 's' in opseq(st) or 'p' in opseq(st)
        showdown_complete = live >= 2
        if not showdown_complete:
            return
        if st.board_count != b * r:
            raise Violation('C14.boards', f'board_count is {st.board_count}, expected {b} starting board(s) x {r} run-out(s); '
                            f'selections {self.selected}', rule='count')
        total = sum(s.board_dealing_count for s in st.streets)
        boards = [list(st.get_board_cards(i)) for i in st.board_indices]
        for i, cards in enumerate(boards):
            if len(cards) != total:
                raise Violation('C14.boards', f'board {i} has {len(cards)} cards at the end, the streets prescribe {total}: '
                                f'{boards}', rule='complete')
        pre = 0
        if self.offer_expected is not None and r > 1:
            pre = sum(s.board_dealing_count for s in st.streets[:self.allin_street + 1])
        for s in range(b):
            group = boards[s * r:(s + 1) * r]
            for x in group[1:]:
                if x[:pre] != group[0][:pre]:
                    raise Violation('C14.boards', f'run-outs of starting board {s} do not share the {pre} cards dealt before '
                                    f'the all-in: {group}', rule='share')
        seen = {}
        for s in range(b):
            group = boards[s * r:(s + 1) * r]
            cards = list(group[0][:pre])
            for x in group:
                cards += x[pre:]
            for c in cards:
                if c in seen:
                    raise Violation('C14.boards', f'card {c!r} appears twice over the boards: {boards}', rule='duplicate')
                seen[c] = True
        for h in st.hole_cards:
            for c in h:
                if c and c in seen:
                    raise Violation('C14.boards', f'card {c!r} is on a board and in a hand', rule='duplicate')
        # each pot divided evenly between the boards
        per = {}
        for op in st.operations:
            if type(op).__name__ == 'ChipsPushing' and op.board_index is not None:
                per.setdefault(op.pot_index, {}).setdefault(op.board_index, 0)
                per[op.pot_index][op.board_index] += sum(op.amounts)
        nb = st.board_count
        for pot, byboard in per.items():
            amounts = [byboard.get(j, 0) for j in range(nb)]
            if nb > 1:
                if any(a != amounts[1] for a in amounts[1:]):
                    raise Violation('C14.split', f'pot {pot} is not divided evenly over the boards: {amounts}', rule='split')
                extra = amounts[0] - amounts[1]
                exact = all(isinstance(a, Fraction) for a in amounts)
                if exact and extra != 0:
                    raise Violation('C14.split', f'pot {pot} (Fraction chips) is not divided evenly: {amounts}', rule='split')
                if extra < 0 or extra >= nb:
                    raise Violation('C14.split', f'pot {pot}: the first board gets {amounts[0]}, the others {amounts[1]} '
                                    f'(remainder must be in [0, {nb}))', rule='split')


def run(ch, ctx):
    bias = dict(BIAS)
    bias['mode'] = 'cash' if ch.chance('c14.cash', 3, 4) else 'tournament'
    cfg = gen_config(ch, bias)
    if cfg['chip'] == 'fraction':
        cfg['unit_den'] = 1
    mon = RunoutMonitor(cfg)
    # which board a card is dealt to (placement rule of the dealing model) and who is paid on which board (settlement
    # model per board and hand type) are part of "dealt as documented" / "each pot divided between the boards"
    from .c10 import DealMonitor
    from .c02 import SettleMonitor
    extra = [DealMonitor(prefix='C14.deal'), SettleMonitor(cfg, prefix='C14.settle')]
    world = None
    try:
        mucks = ch.chance('c14.mucks', 1, 3)
        world = World(ch, ctx, cfg, [mon] + extra, run_key=run_key_of(ch), muck_num=2 if mucks else 0, partial_show=False,
                      profile=ch.choice('c14.profile', ('shover', 'aggressive', 'aggressive', 'balanced')),
                      runout_prefs=(None, 1, 2, 2, 3, 3))
        if ch.chance('c14.consensus', 1, 2):       # half of the tables agree (with abstentions), so that r > 1 is reached often
            r = ch.choice('c14.consensus.r', (2, 3, 2))
            world.runout_prefs = (r, r, r, None)
        world.run()
    except EngineCrash as c:
        if world is not None:
            note_trace(world, ctx)
            if mon.offer_expected is not None and any(x is not None and x > 1 for _, x in mon.selected):
                raise Violation('C14.crash', f'after the run-out choice {mon.selected} (all-in on street {mon.allin_street}) the hand '
                                f'is not run out: {c}', rule='crash')
        else:
            ctx.notes['config'] = cfg
        raise
    except (Violation, Stuck):
        if world is not None:
            note_trace(world, ctx)
        else:
            ctx.notes['config'] = cfg
        raise
    st = world.state
    offered = mon.offer_expected is not None
    ctx.count('offers_opened', offered)
    ctx.count('runouts_gt1', (st.runout_count or 1) > 1)
    ctx.count('double_board', st.starting_board_count == 2)
    ctx.count('boards_ge4', st.board_count >= 4)
    ctx.count('disagreement', len({c for _, c in mon.selected if c is not None}) > 1)
    if offered:
        ctx.count('allin_street_%d' % mon.allin_street)
    std_finish(world, ctx, offered)
    ctx.shape = [cfg['variant'], cfg['mode'], cfg['sbc'], getattr(mon, 'allin_street', None),
                 tuple(c for _, c in mon.selected), mon.inter]
