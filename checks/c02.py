"""C02 - every pot goes to the best eligible live hand(s), in the right amounts.  DESIGN.md section 5, C02."""
from __future__ import annotations
from fractions import Fraction

from .common import (COMPONENTS, EngineCrash, Monitor, Stuck, Violation, World, gen_config, note_trace,
                     run_key_of, std_finish, opseq, live_model)
from ref import settle as rs
from sim.play import cards_str

ID = 'C02'
LEVEL = 'exploration'
crash_is_violation = False
QUICK_RUNS = 14000
THOROUGH_RUNS = 400000
QUICK_BUDGET = 100
THOROUGH_BUDGET = 1500
RULE = ('one run = one simulated hand biased to settlement-relevant histories: >= 3 players with unequal stacks and '
        'shoving/aggressive profiles (side pots in most hands), hi-lo variants over-weighted, 1-2 boards x 1-3 run-outs, '
        'trimmed and untrimmed antes, a rigging dealer (ranks shared between players for exact ties, low boards for '
        'qualifying/non-qualifying lows, counterfeits), cash-game voluntary mucks and partial shows, unreasonable folds '
        '(dead money). Oracle: an independent settlement model (ref/settle.py) fed by a chip ledger rebuilt from the log, '
        'and an independent hand evaluator (ref/evalhand.py). Checked: the engine\'s pots equal the model\'s layers '
        '(eligible set and amount); every ChipsPushing goes exactly to the holder(s) of the best hand among that pot\'s '
        'eligible live players on that board for that hand type, in equal shares with odd chips to the earliest seat; a '
        'hand type is paid in a pot only if some eligible player of that pot has such a hand; with exact division the '
        'final stacks equal the model\'s awards exactly; folded/mucked/killed players get nothing, nobody wins more from '
        'an opponent than he put in, a lone survivor takes everything. non-trivial = showdown with >= 2 live players; '
        'distinct = distinct (configuration class, layers\' eligible sets, winners per push) digests')
ASSUMPTIONS = [
    'R-EVAL (ref/evalhand.py) is the trusted statement of hand strength; selftest/reval_agree.py cross-checks it with the '
    'engine on random deals (deuce-to-seven = exact reversal of the standard order)',
    'how odd chips fall across boards and hand types is unspecified; exact totals are demanded only under exact division',
    'rake is off in this check (rake is C01\'s business); cards reaching showdown are known',
]
HILO = ('FO8', 'F7S8', 'XO5', 'XSHL')
BIAS = dict(custom_num=1, min_players=3, rakes=('none',), sbcs=(1, 1, 2), chips=('fraction', 'fraction', 'int'),
            divmods=('exact', 'exact', 'default'), stack_pool=(2, 3, 5, 8, 13, 20, 40, 100), equal_num=0)


class RigWorld(World):
    def pick_cards(self, kind, k, player_index=None):
        st = self.state
        if self.dealer != 'rigged' or kind == 'burn':
            return super().pick_cards(kind, k, player_index)
        pool = sorted(st.get_dealable_cards(k), key=repr)
        out = []
        ch = self.ch
        hilo = len(st.hand_types) > 1
        badugi = any('Badugi' in h.__name__ for h in st.hand_types)
        if not hasattr(self, 'mirror'):
            # mirror tables: player 1 is dealt, card for card, the ranks of player 0 in ONE suit where the deck allows -
            # exact ties between a single-suited hand and a mixed one (split pots, equal lows, flush against no flush)
            self.mirror = ch.chance('rig.mirror', 1, 6)
            self.mirror_suit = 'cdhs'[ch.pick('rig.mirror.suit', 4)]
        for _ in range(k):
            if not pool:
                return k
            pick = None
            r = ch.pick('rig.mode', 4)
            if self.mirror and kind == 'hole' and player_index == 1:
                j = len(st.hole_cards[1]) + len(out)
                src = [c for c in st.hole_cards[0] if c]
                if j < len(src):
                    same = [c for c in pool if c.rank == src[j].rank]
                    suited = [c for c in same if str(c.suit.value) == self.mirror_suit]
                    if suited or same:
                        pick = (suited or same)[0]
                        pool.remove(pick)
                        out.append(pick)
                        self.ctx.count('mirrored_cards')
                        continue
            if kind == 'hole' and r in (0, 1):
                # share a rank with another player's cards -> exact ties, counterfeits
                others = [c for i in range(st.player_count) if i != player_index for c in st.hole_cards[i] if c] + out
                same = [c for c in pool if any(c.rank == o.rank for o in others)]
                if same:
                    pick = same[ch.pick('rig.card', len(same))]
            elif kind == 'hole' and r == 3 and not badugi:
                # suited hands that tie: a card of the suit the player already holds whose rank another player holds too
                # (single-suited lows and flushes next to equal ranks elsewhere)
                own = [c for c in st.hole_cards[player_index] if c] + out
                others = [c for i in range(st.player_count) if i != player_index for c in st.hole_cards[i] if c]
                same = [c for c in pool if own and c.suit == own[0].suit and any(c.rank == o.rank for o in others)]
                if same:
                    pick = same[ch.pick('rig.card', len(same))]
            elif kind == 'hole' and badugi and r == 2:
                # small badugis: a card blocked by the player's own cards (same suit or same rank), so that the best
                # two- and three-card subsets have to be found among several candidates
                own = [c for c in st.hole_cards[player_index] if c] + out
                blocked = [c for c in pool if any(c.rank == o.rank or c.suit == o.suit for o in own)]
                if blocked:
                    pick = blocked[ch.pick('rig.card', len(blocked))]
            elif kind == 'board' and hilo and r in (0, 1, 2):
                lows = [c for c in pool if str(c.rank.value) in 'A2345678']
                highs = [c for c in pool if str(c.rank.value) in '9TJQK']
                grp = lows if r != 2 else highs
                if grp:
                    pick = grp[ch.pick('rig.card', len(grp))]
            elif kind == 'board' and r == 0:
                onboard = [c for row in st.board_cards for c in row] + out
                same = [c for c in pool if any(c.rank == o.rank for o in onboard)]
                if same:
                    pick = same[ch.pick('rig.card', len(same))]
            if pick is None:
                pick = pool[ch.pick('dealer.card', len(pool))]
            pool.remove(pick)
            out.append(pick)
        self.ctx.count('rigged_cards', k)
        return cards_str(out)


class Push:
    """A ChipsPushing record with its amounts as Fractions (Decimal and float chips convert exactly)."""

    def __init__(self, op):
        self.op = op
        self.amounts = tuple(Fraction(a) for a in op.amounts)
        self.pot_index, self.board_index, self.hand_type_index = op.pot_index, op.board_index, op.hand_type_index

    def __repr__(self):
        return repr(self.op)


class SettleMonitor(Monitor):
    def __init__(self, cfg, types=None, prefix='C02'):
        self.cfg = cfg
        self.types = types
        self.prefix = prefix
        self.init = False
        self.pre = None
        self.pushes = []
        self.result = {}

    def start(self, st):
        self.init = True
        n = st.player_count
        self.n = n
        self.contrib = [Fraction(0)] * n
        self.antes = [Fraction(0)] * n
        self.bets = [Fraction(0)] * n
        self.ante_bets = [Fraction(0)] * n
        self.collections = 0

    def fail(self, what, msg, **sig):
        raise Violation(self.prefix + '.' + what, msg, **sig)

    def on_op(self, world, st, op):
        if not self.init:
            self.start(st)
        t = type(op).__name__
        n = self.n
        if t == 'AntePosting':
            self.bets[op.player_index] += Fraction(op.amount)
            self.ante_bets[op.player_index] += Fraction(op.amount)
        elif t in ('BlindOrStraddlePosting', 'BringInPosting', 'CheckingOrCalling'):
            self.bets[op.player_index] += Fraction(op.amount)
        elif t == 'CompletionBettingOrRaisingTo':
            self.bets[op.player_index] = Fraction(op.amount)
        elif t == 'BetCollection':
            first_ante_collection = self.collections == 0 and any(self.ante_bets)
            for i in range(n):
                self.contrib[i] += Fraction(op.bets[i])
                if first_ante_collection:
                    self.antes[i] = Fraction(op.bets[i])
                self.bets[i] = Fraction(0)
            self.ante_bets = [Fraction(0)] * n
            self.collections += 1
        elif t == 'ChipsPushing':
            op = Push(op)               # amounts as exact rationals whatever the chip type
            if self.pre is None:
                live = live_model(st.operations[:-1], n)
                pots = [(Fraction(p.raked_amount + p.unraked_amount) + (sum(op.amounts) if k == op.pot_index else 0), tuple(p.player_indices))
                        for k, p in enumerate(st.pots)]
                self.pre = dict(live=live, shown=[list(st.get_up_cards(i)) for i in range(n)],
                                boards=[list(st.get_board_cards(b)) for b in st.board_indices],
                                pots=pots, types=self.types or [h.__name__ for h in st.hand_types],
                                uncollected=[Fraction(x) for x in self.bets])
            self.pushes.append(op)

    def on_end(self, world):
        st = world.state
        if not self.init:
            self.start(st)
        if self.pre is None:
            return
        pre = self.pre
        n = self.n
        live = pre['live']
        exact = self.cfg['divmod'] == 'exact' or (self.cfg['divmod'] == 'default' and self.cfg['chip'] == 'fraction'
                                                  and not self.cfg.get('mixed'))      # the library's divmod is exact on Fractions
        layers = rs.layers_of(self.contrib, self.antes, live, st.ante_trimming_status)
        self.result['layers'] = [(str(a), e) for a, e in layers]
        if sum(live) == 0:
            return                                    # nobody left to award (K1 family, C01's business)
        # (1) pots = layers
        eng = [(Fraction(a), e) for a, e in pre['pots']]
        if sorted(eng, key=lambda x: x[1]) != sorted(layers, key=lambda x: x[1]):
            self.fail('pots', f'the engine\'s pots {[(str(a), e) for a, e in eng]} differ from the layers the '
                      f'contributions imply {[(str(a), e) for a, e in layers]}; contributions '
                      f'{[str(x) for x in self.contrib]} antes {[str(x) for x in self.antes]} live {live} '
                      f'trimming {st.ante_trimming_status}', rule='pots')
        for i in range(n):
            if not live[i]:
                for op in self.pushes:
                    if op.amounts[i]:
                        self.fail('dead_hand', f'player {i} folded, mucked or was killed but is pushed {op.amounts[i]} ({op!r})',
                                  rule='dead_hand')
        total_pot = sum(a for a, _ in layers)
        if sum(live) == 1:
            w = live.index(True)
            got = sum(op.amounts[w] for op in self.pushes)
            if got != total_pot:
                self.fail('survivor', f'lone survivor {w} is pushed {got} of a pot of {total_pot}', rule='survivor')
            return
        players = [i for i in range(n) if live[i]]
        keys = rs.hand_keys(pre['types'], pre['shown'], pre['boards'], players)
        nt = len(pre['types'])
        shapes = []
        by_pot = {}
        not_in_play = []
        for op in self.pushes:
            pot_amount, elig = eng[op.pot_index]
            b, t = op.board_index, op.hand_type_index
            if b is None or t is None:
                self.fail('push', f'{op!r} has no board/hand type although {sum(live)} players are in the hand', rule='push')
            w = rs.winners(keys, elig, b, t)
            got = [i for i in range(n) if op.amounts[i]]
            shapes.append((elig, b, t, tuple(w)))
            if not w:
                # the engine pushed chips for a hand type nobody eligible for this pot holds: judged by the money,
                # i.e. by the per-(pot, board) totals below (the statement fixes who ends up with the chips)
                not_in_play.append(op)
                by_pot.setdefault(op.pot_index, Fraction(0))
                by_pot[op.pot_index] += sum(op.amounts)
                continue
            if (sorted(got) != sorted(w)) if exact else (not set(got) <= set(w) or w[0] not in got):
                self.fail('winner', f'{op!r}: pot {op.pot_index} (eligible {elig}) board {b} {pre["types"][t]} must go to '
                          f'{w}, chips went to {got}; shown {[(i, pre["shown"][i]) for i in players]} board '
                          f'{pre["boards"][b]}', rule='winner')
            amounts = [op.amounts[i] for i in w]
            if exact:
                if any(a != amounts[0] for a in amounts):
                    self.fail('share', f'{op!r}: winners {w} do not share equally', rule='share')
            else:
                rest = amounts[1:]
                if any(a != rest[0] for a in rest) or (rest and not 0 <= amounts[0] - rest[0] < len(w)):
                    self.fail('share', f'{op!r}: winners {w} get {amounts}: not equal shares with the odd chips to the '
                              f'earliest seat', rule='share')
            by_pot.setdefault(op.pot_index, Fraction(0))
            by_pot[op.pot_index] += sum(op.amounts)
        # money per (pot, board): what each player receives over all hand types
        nb = len(pre['boards'])
        for k, (amount, elig) in enumerate(eng):
            for b in range(nb):
                actual = [Fraction(0)] * n
                for op in self.pushes:
                    if op.pot_index == k and op.board_index == b:
                        for i in range(n):
                            actual[i] += op.amounts[i]
                types = rs.types_in_play(keys, elig, b, nt)
                want_set = sorted({i for t in types for i in rs.winners(keys, elig, b, t)})
                got_set = sorted(i for i in range(n) if actual[i])
                if exact:
                    expect = [Fraction(0)] * n
                    for t in types:
                        w = rs.winners(keys, elig, b, t)
                        for i in w:
                            expect[i] += amount / nb / len(types) / len(w)
                    if actual != expect:
                        self.fail('board_share', f'pot {k} (eligible {elig}, {amount}) board {b}: players receive '
                                  f'{[str(x) for x in actual]}, the rules give {[str(x) for x in expect]} (hand types in '
                                  f'play for this pot: {[pre["types"][t] for t in types]}); shown '
                                  f'{[(i, pre["shown"][i]) for i in players]} board {pre["boards"][b]}', rule='board_share')
                elif sum(actual) and got_set != want_set and not (set(got_set) <= set(want_set)):
                    self.fail('board_share', f'pot {k} (eligible {elig}) board {b}: chips went to {got_set}, the winners '
                              f'are {want_set}', rule='board_share')
        for k, (amount, elig) in enumerate(eng):
            if by_pot.get(k, 0) != amount:
                self.fail('pot_total', f'pot {k} holds {amount} but {by_pot.get(k, 0)} was pushed out of it', rule='pot_total')
        # hand types that must be paid: with exact division every (pot, board, type in play) gets a push
        if exact:
            pushed = {(op.pot_index, op.board_index, op.hand_type_index) for op in self.pushes}
            for k, (amount, elig) in enumerate(eng):
                for b in range(len(pre['boards'])):
                    for t in rs.types_in_play(keys, elig, b, nt):
                        if (k, b, t) not in pushed:
                            self.fail('type_unpaid', f'pot {k} board {b}: {pre["types"][t]} is in play for {elig} but no '
                                      f'chips were pushed for it', rule='type_unpaid')
        award = rs.settle(layers, live, pre['types'], pre['shown'], pre['boards'])
        got = [sum(op.amounts[i] for op in self.pushes) for i in range(n)]
        if exact:
            if [Fraction(x) for x in got] != award:
                self.fail('award', f'awards {[str(x) for x in got]} differ from the exact settlement '
                          f'{[str(x) for x in award]}; layers {self.result["layers"]}', rule='award')
        else:
            # per layer: the board split leaves < nb odd chips, each board's hand-type split < nt, each push's winner
            # split < (number of winners); all of them may land on one player
            nb_ = len(pre['boards'])
            slack = len(layers) * ((nb_ - 1) + nb_ * (nt - 1) + nb_ * nt * (len(players) - 1))
            for i in range(n):
                if abs(Fraction(got[i]) - award[i]) > slack:
                    self.fail('award', f'player {i} is awarded {got[i]}, the exact share is {award[i]} (allowed deviation '
                              f'{slack} odd chips)', rule='award')
        # nobody wins from an opponent more than he himself put in
        c = list(self.contrib)
        dead = Fraction(0)
        if not st.ante_trimming_status:
            dead = sum(self.antes)
            c = [c[i] - self.antes[i] for i in range(n)]
        top_live = max(c[i] for i in players)
        for i in players:
            cap = dead + sum(min(c[j], c[i]) for j in range(n))
            if c[i] == top_live:
                cap += sum(max(Fraction(0), c[j] - c[i]) for j in range(n) if not live[j])     # dead money above all
            if Fraction(got[i]) > cap:
                self.fail('cap', f'player {i} put in {c[i]} and is awarded {got[i]}, more than {cap} = what he can win',
                          rule='cap')
        self.result['shapes'] = shapes
        self.result['side_pots'] = len(layers)


def run(ch, ctx):
    bias = dict(BIAS)
    badugi_focus = False
    if ch.chance('c02.hilo', 2, 5):
        bias['variants'] = HILO
    elif ch.chance('c02.badugi', 1, 6):
        bias['variants'] = ('FB',)
        badugi_focus = True
        ctx.count('badugi_focus_runs')
    cfg = gen_config(ch, bias)
    if cfg['chip'] == 'int':
        cfg['divmod'] = 'default'
    elif cfg['divmod'] != 'exact' and not ch.chance('c02.library_divmod', 1, 2):
        cfg['divmod'] = 'exact'         # (otherwise: Fraction chips through the library's own divmod, which is exact on them)
    mon = SettleMonitor(cfg)
    world = None
    try:
        dealer = ch.choice('c02.dealer', ('rigged', 'rigged', 'engine', 'explicit'))
        mucks = ch.chance('c02.mucks', 1, 4)
        partial = ch.chance('c02.partial', 1, 4)
        monitors = [mon]
        if not mucks:
            # nobody mucks voluntarily in this run, so every muck and kill is the engine's: the strongest hand among the
            # players who did not fold - judged by the cards each of them tabled - must then still be paid
            from .c12 import TableAll
            monitors.append(TableAll(cfg, prefix='C02.table_all'))
        world = RigWorld(ch, ctx, cfg, monitors, run_key=run_key_of(ch), dealer=dealer,
                         profile=ch.choice('c02.profile', ('shover', 'aggressive', 'aggressive', 'balanced', 'passive')),
                         muck_num=1 if mucks else 0, partial_show=partial,
                         force_show=badugi_focus and ch.chance('c02.table_all', 1, 2))     # everybody tables: a hand the
        #                  engine cannot evaluate then shows in the settlement instead of being mucked away (C12's business)
        world.run()
    except (Violation, EngineCrash, Stuck):
        if world is not None:
            note_trace(world, ctx)
            ctx.notes['settlement'] = mon.result
        else:
            ctx.notes['config'] = cfg
        raise
    st = world.state
    live2 = mon.pre is not None and sum(mon.pre['live']) >= 2
    ctx.count('showdowns_2plus', live2)
    ctx.count('side_pots_ge2', mon.result.get('side_pots', 0) >= 2)
    ctx.count('side_pots_ge3', mon.result.get('side_pots', 0) >= 3)
    ctx.count('hi_lo', len(st.hand_types) > 1)
    ctx.count('multi_board', st.board_count > 1)
    ctx.count('exact_division', cfg['divmod'] == 'exact')
    shapes = mon.result.get('shapes', [])
    ctx.count('split_pushes', sum(1 for s in shapes if len(s[3]) > 1))
    ctx.count('pushes_checked', len(shapes))
    std_finish(world, ctx, live2)
    ctx.shape = [ctx.shape[0], tuple(e for _, e in mon.result.get('layers', [])), tuple(shapes)]
