"""C13 - the right player opens each betting round.  DESIGN.md section 5, C13."""
from __future__ import annotations

from .common import (COMPONENTS, EngineCrash, Monitor, Stuck, Violation, World, gen_config, note_trace,
                     run_key_of, std_finish, opseq)
from ref import open as ropen
from ref.bet import DEAL
from sim.play import cards_str

from pokerkit import Opening

ID = 'C13'
LEVEL = 'exploration'
crash_is_violation = False
QUICK_RUNS = 16000
THOROUGH_RUNS = 450000
QUICK_BUDGET = 100
THOROUGH_BUDGET = 1500
RULE = ('one run = one simulated hand. Button games with blind layouts (sb,bb), (sb,bb,straddle), (bb,bb), (0,bb), button '
        'straddle, posts by late-seated players, heads-up, blinds short stacks cannot cover; stud variants (7-card stud, '
        'hi-lo, razz, 5-card stud high and low, stud high/regular-low) with a rigging dealer that manufactures equal ranks '
        'in different suits, pairs, trips and two pair on the exposed cards; fold/all-in patterns incl. an all-in '
        'designated opener. At the first decision of every betting round the engine\'s actor_index, and the player of '
        'every BringInPosting, is compared with R-OPEN (ref/open.py: position rule on the blinds actually posted, exposed '
        'cards taken from the dealing records and the street definitions - not from the engine\'s own face-up flags -, '
        'lowest/highest up-card with suit tie-break, best/lowest exposed hand by multiplicities, ties to the earliest '
        'seat) followed by the clockwise skip of players who cannot act; in stud the designated player opens WITH the bring-in: '
        'he can neither fold nor check at that decision. non-trivial = a round with >= 2 players able '
        'to act was opened; distinct = distinct (variant, layout, opening rule, exposed-rank pattern, who can act) digests')
ASSUMPTIONS = [
    '"the last blind or straddle" is the largest (latest seat on ties) blind or straddle actually posted; exotic '
    'non-monotone positive layouts other than the listed ones are not generated',
    'a player can act iff he is in the hand, has chips, and some other player in the hand can match part of them',
]
STUD = ('F7S', 'F7S8', 'FR', 'X5S', 'XSHL')
BUTTON = ('NT', 'FT', 'PO', 'NS', 'N2L1D', 'FB', 'XHE', 'X5D')
BIAS = dict(chips=('int', 'int', 'fraction'), rakes=('none',), stack_pool=(2, 3, 5, 8, 13, 20, 40, 100, 200))     # fraction:
#           chip values with denominators 1, 2, 3 - blinds and straddles below one unit included


class RigWorld(World):
    """Dealer that rigs up-cards towards ties and pairs."""

    def pick_cards(self, kind, k, player_index=None):
        st = self.state
        if kind != 'hole' or self.dealer != 'rigged':
            return super().pick_cards(kind, k, player_index)
        pend = list(st.hole_dealing_statuses[player_index])[:k]
        pool = sorted(st.get_dealable_cards(k), key=repr)
        out = []
        showing = [c for i in range(st.player_count) if st.statuses[i] for c in st.get_up_cards(i)]
        for up in pend:
            if not pool:
                return k
            if up and showing and self.ch.chance('rig.tie', 3, 5):
                ranks = sorted({c.rank for c in showing}, key=str)
                r = ranks[self.ch.pick('rig.rank', len(ranks))]
                same = [c for c in pool if c.rank == r]
                if same:
                    c = same[self.ch.pick('rig.card', len(same))]
                    pool.remove(c)
                    out.append(c)
                    showing.append(c)
                    self.ctx.count('rigged_up_cards')
                    continue
            c = pool.pop(self.ch.pick('dealer.card', len(pool)))
            out.append(c)
            if up:
                showing.append(c)
        return cards_str(out)


class OpenMonitor(Monitor):
    def __init__(self):
        self.posted = None
        self.prev_deal = False
        self.round_open = False        # a round was opened and its first decision has been checked
        self.rounds = 0
        self.expected_bring_in = None
        self.checked = 0
        self.nontrivial = 0
        self.shapes = []
        self.ups = None
        self.got = {}

    def on_op(self, world, st, op):
        if self.posted is None:
            self.posted = [0] * st.player_count
        t = type(op).__name__
        if t == 'HoleDealing':
            # exposed cards as the STREET DEFINITIONS prescribe them (not as the engine flags them): the j-th card a player
            # receives on a street has the j-th facing of that street
            if self.ups is None:
                self.ups = [[] for _ in range(st.player_count)]
                self.got = {}
            k = st.street_index
            facings = tuple(st.streets[k].hole_dealing_statuses) if k is not None else ()
            have = self.got.get((op.player_index, k), 0)
            for j, c in enumerate(op.cards):
                if have + j < len(facings) and facings[have + j]:
                    self.ups[op.player_index].append(c)
            self.got[(op.player_index, k)] = have + len(op.cards)
        elif t == 'HoleCardsShowingOrMucking' and op.hole_cards and self.ups is not None:
            self.ups[op.player_index] = list(op.hole_cards)         # tabled cards are exposed from then on
        if t == 'BlindOrStraddlePosting':
            self.posted[op.player_index] += op.amount
        if t in DEAL:
            self.prev_deal = True
            self.round_open = False
        elif t == 'BringInPosting':
            if self.expected_bring_in is not None and op.player_index != self.expected_bring_in:
                raise Violation('C13.bring_in', f'bring-in posted by player {op.player_index}, the rules designate '
                                f'{self.expected_bring_in}', rule='bring_in')

    def on_quiescent(self, world):
        st = world.state
        if self.posted is None:
            self.posted = [0] * st.player_count
        if not self.prev_deal or self.round_open:
            return
        if st.can_burn_card() or st.can_deal_hole() or st.can_deal_board() or st.can_stand_pat_or_discard():
            return                      # dealing not complete yet
        actor = st.actor_index
        if actor is None:
            return                      # no betting on this street (who may act at all is C03's business)
        self.round_open = True
        self.prev_deal = False
        n = st.player_count
        live = list(st.statuses)
        total = [st.stacks[i] + st.bets[i] for i in range(n)]

        def can_act(i):
            if not live[i] or st.stacks[i] <= 0:
                return False
            others = [total[j] for j in range(n) if j != i and live[j]]
            return bool(others) and max(others) - st.bets[i] > 0
        street = st.street
        first_round = st.street_index == 0 and self.rounds == 0
        self.rounds += 1
        if street.opening == Opening.POSITION:
            b = st.blinds_or_straddles
            blinds = [b[(not i) if n == 2 else i] for i in range(n)]
            designated = ropen.position_opener(n, blinds, first_round, self.posted)
            pattern = ('pos', tuple((x > 0) - (x < 0) for x in blinds), first_round)
        else:
            ups = {i: list(self.ups[i] if self.ups is not None else st.get_up_cards(i)) for i in range(n) if live[i]}
            designated = ropen.stud_opener(street.opening, ups)
            if designated is None:
                world.ctx.count('opener_unspecified')
                return
            ranks = sorted(str(c.rank) for v in ups.values() for c in v)
            pattern = (street.opening.name, tuple(sorted(__import__('collections').Counter(ranks).values(), reverse=True)))
        expected = None
        for k in range(n):
            j = (designated + k) % n
            if can_act(j):
                expected = j
                break
        self.checked += 1
        movers = sum(can_act(i) for i in range(n))
        if movers >= 2:
            self.nontrivial += 1
        self.shapes.append((pattern, tuple(can_act(i) for i in range(n)), designated))
        if expected != designated:
            world.ctx.count('designated_opener_cannot_act')
        if street.opening != Opening.POSITION:
            ups = {i: list(st.get_up_cards(i)) for i in range(n) if live[i]}
            allr = [str(c.rank) for v in ups.values() for c in v]
            if len(set(allr)) < len(allr):
                world.ctx.count('rounds_with_equal_exposed_ranks')
        if actor != expected:
            detail = ''
            if street.opening != Opening.POSITION:
                detail = f' up-cards {[(i, list(st.get_up_cards(i))) for i in range(n) if live[i]]}'
            raise Violation('C13.opener', f'street {st.street_index} ({street.opening.name}): the rules designate player '
                            f'{designated} and, skipping players who cannot act, player {expected} opens; the engine says '
                            f'{actor}. blinds {st.blinds_or_straddles} posted {self.posted} bets {st.bets} stacks {st.stacks} '
                            f'statuses {st.statuses}{detail}', rule=street.opening.name)
        self.expected_bring_in = expected if (first_round and st.bring_in > 0) else None
        if self.expected_bring_in is not None and st.can_post_bring_in():
            # the round is opened WITH the forced bring-in: the designated player can neither fold nor check his way out of it
            # (otherwise the bring-in moves on and a player who does not hold the designated up-card opens the round)
            for q in ('can_fold', 'can_check_or_call'):
                if getattr(st, q)():
                    raise Violation('C13.bring_in_forced', f'player {expected} holds the designated up-card and must open with the '
                                    f'bring-in (or complete), but {q}() is True', rule='bring_in_forced', query=q)
            world.ctx.count('bring_in_decisions_checked')


def run(ch, ctx):
    bias = dict(BIAS)
    stud = ch.chance('c13.stud', 1, 2)
    bias['variants'] = STUD if stud else BUTTON
    if stud:
        bias['min_players'] = 3
    elif ch.chance('c13.forced_stress', 1, 4):
        # forced-bet stress: stacks that antes and blinds use up, posts by late-seated players
        bias.update(stack_pool=(1, 1, 2, 2, 3, 5, 20), ante_kinds=('uniform', 'uniform', 'bb', 'mixed', 'none'),
                    post_heavy=True, stack_mult=1)
        ctx.count('forced_bet_stress_runs')
    cfg = gen_config(ch, bias)
    mon = OpenMonitor()
    world = None
    try:
        world = RigWorld(ch, ctx, cfg, [mon], run_key=run_key_of(ch),
                         dealer='rigged' if stud and ch.chance('c13.rig', 3, 4) else None,
                         profile=ch.choice('c13.profile', ('passive', 'balanced', 'balanced', 'shover')),
                         muck_num=0, partial_show=False)
        world.run()
    except (Violation, EngineCrash, Stuck):
        if world is not None:
            note_trace(world, ctx)
        else:
            ctx.notes['config'] = cfg
        raise
    ctx.count('rounds_checked', mon.checked)
    ctx.count('rounds_with_2plus_movers', mon.nontrivial)
    ctx.count('stud_hands', stud)
    std_finish(world, ctx, mon.nontrivial > 0)
    ctx.shape = [cfg['variant'], cfg['n'], repr(cfg['blinds']), mon.shapes]
